package main

import (
	"encoding/json"
	"fmt"
	"math/rand"
	"os"
	"path/filepath"
	"strings"
	"time"

	"gosym/interp"
)

// Translator validation: a few concrete instances are pushed through both the
// symbolic interpreter (concrete mode) and the natively compiled harness, and the
// observable traces (every assertion outcome, reach marker and observation, in
// order) are compared. A difference means the engine or a model misrepresents
// the code: the check is then inconclusive (machinery failure), never a verdict.

type validationOutcome struct {
	runs       int
	mismatches []string
	samples    []any
	skipped    string
}

func genInputs(rng *rand.Rand, strategy int) *interp.ConcreteInputs {
	ci := &interp.ConcreteInputs{}
	for i := 0; i < 2048; i++ {
		var v uint64
		switch strategy {
		case 0: // pairwise distinct small values (satisfies generic-position assumptions)
			v = uint64((i*7 + 3) % 251)
		case 1: // binary alphabet
			v = uint64(rng.Intn(2))
		case 2: // ternary alphabet with runs
			v = uint64((i / 2) % 3)
		default:
			v = uint64(rng.Intn(256))
		}
		ci.Inputs = append(ci.Inputs, v)
	}
	for i := 0; i < 256; i++ {
		ci.Choices = append(ci.Choices, uint64(rng.Intn(4)))
	}
	return ci
}

func (d *driver) validate(all []*result, progs map[string]*interp.Program, want int) *validationOutcome {
	out := &validationOutcome{}
	if d.noReplay || want <= 0 {
		out.skipped = "disabled"
		return out
	}
	rng := rand.New(rand.NewSource(d.seed))
	// candidates: exhausted, violation-free instances of non-witness harnesses, spread over harnesses
	byHarness := map[string][]*result{}
	var names []string
	for _, r := range all {
		if r.inst.h.Expect == "violation" || r.inst.h.NoValidate || len(r.res.Violations) > 0 || r.res.Completed == 0 {
			continue
		}
		if _, ok := byHarness[r.res.Harness]; !ok {
			names = append(names, r.res.Harness)
		}
		byHarness[r.res.Harness] = append(byHarness[r.res.Harness], r)
	}
	if len(names) == 0 {
		out.skipped = "no candidate instance"
		return out
	}
	rp := newReplayer(d)
	defer rp.cleanup()
	w := map[string]*interp.Worker{}
	defer func() {
		for _, x := range w {
			x.Close()
		}
	}()
	pkgPath := d.harnessPkgPath()
	deadline := time.Now().Add(120 * time.Second)
	for i := 0; out.runs < want && i < want*4 && time.Now().Before(deadline); i++ {
		name := names[i%len(names)]
		cands := byHarness[name]
		r := cands[rng.Intn(len(cands))]
		prog := progs[r.scaleSet]
		if prog == nil {
			continue
		}
		bin := rp.build(r.scaleSet, r.overlay)
		if bin == "" {
			out.skipped = "native build failed: " + rp.errs[r.scaleSet]
			return out
		}
		wk := w[r.scaleSet]
		if wk == nil {
			var err error
			wk, err = interp.NewWorker(prog, 99, d.solver, interp.Limits{MaxSteps: 4_000_000_000, MaxPaths: 1, MaxDecisions: 100000, Preemptions: -1, MaxValues: 64})
			if err != nil {
				continue
			}
			w[r.scaleSet] = wk
		}
		fn := prog.Func(pkgPath, name)
		if fn == nil {
			continue
		}
		var ci *interp.ConcreteInputs
		var engineObs []string
		for strat := 0; strat < 4; strat++ {
			ci = genInputs(rng, (strat+i)%4)
			res := wk.ExploreInstance(fn, r.res.Params, ci)
			if len(res.Inconclusive) > 0 && len(res.Observations) == 0 {
				engineObs = []string{"inconclusive: " + res.Inconclusive[0]}
				break
			}
			if len(res.Observations) > 0 && !(len(res.Observations[0]) == 1 && res.Observations[0][0] == "void") {
				engineObs = res.Observations[0]
				break
			}
		}
		if engineObs == nil {
			continue // every strategy violated an assumption: nothing to compare
		}
		// native run with the same inputs
		rf := filepath.Join(rp.tmp, fmt.Sprintf("concrete_%d.json", i))
		rj := map[string]any{"harness": name, "params": r.res.Params, "inputs": valuesJSON(ci.Inputs), "choices": choicesJSON(ci.Choices)}
		b, _ := json.Marshal(rj)
		os.WriteFile(rf, b, 0o644)
		txt, _ := rp.run(bin, rf, 120*time.Second, "GOMAXPROCS=4")
		var nativeObs []string
		for _, line := range strings.Split(txt, "\n") {
			if strings.HasPrefix(line, "REPLAY-OBS ") {
				nativeObs = append(nativeObs, strings.TrimPrefix(line, "REPLAY-OBS "))
			}
		}
		if strings.Contains(txt, "REPLAY-VOID") {
			nativeObs = []string{"void"}
		}
		if strings.Contains(txt, "REPLAY-PANIC") || (strings.Contains(txt, "panic:") && !strings.Contains(txt, "REPLAY-DONE")) {
			nativeObs = append(nativeObs, "ended:panic")
		}
		out.runs++
		same := len(engineObs) == len(nativeObs)
		if same {
			for k := range engineObs {
				if engineObs[k] != nativeObs[k] {
					// panics may be labelled goroutine-panic in the engine
					if strings.HasPrefix(engineObs[k], "ended:") && strings.HasPrefix(nativeObs[k], "ended:") {
						continue
					}
					same = false
				}
			}
		}
		if !same {
			msg := fmt.Sprintf("%s %v: engine trace %v != native trace %v", name, r.res.Params, trimObs(engineObs), trimObs(nativeObs))
			out.mismatches = append(out.mismatches, msg)
			os.WriteFile(filepath.Join(outDir, "replays", fmt.Sprintf("%s_mismatch_%d.txt", d.prop, i)), []byte(msg+"\n\nnative output:\n"+trunc(txt, 8000)), 0o644)
		}
		if len(out.samples) < 3 {
			out.samples = append(out.samples, map[string]any{"harness": name, "params": r.res.Params, "trace_length": len(engineObs), "agree": same, "first_events": trimObs(engineObs)})
		}
	}
	return out
}

func trimObs(o []string) []string {
	if len(o) > 6 {
		return append(append([]string{}, o[:6]...), fmt.Sprintf("... %d more", len(o)-6))
	}
	return o
}

func valuesJSON(v []uint64) []map[string]any {
	out := make([]map[string]any, len(v))
	for i, x := range v {
		out[i] = map[string]any{"value": x}
	}
	return out
}

func choicesJSON(v []uint64) []map[string]any {
	out := make([]map[string]any, len(v))
	for i, x := range v {
		out[i] = map[string]any{"kind": "choice", "value": x}
	}
	return out
}
