package main

import (
	"encoding/json"
	"fmt"
	"os"
	"path/filepath"
	"regexp"
	"sort"
	"strings"
	"time"

	"gosym/interp"
)

// Finding is one entry of /verif/known_findings.json.
type Finding struct {
	Property string         `json:"property"`
	Status   string         `json:"status"`           // known | fixed
	Harness  string         `json:"harness"`          // regexp on harness name
	Kind     string         `json:"kind"`             // violation kind (assert|panic|deadlock|goroutine-panic|nontermination)
	Label    string         `json:"label"`            // regexp on assertion label / panic message
	Site     string         `json:"site"`             // regexp on "func site" of the failing instruction
	Params   map[string]int `json:"params,omitempty"` // instance parameters that must match exactly
	Commit   string         `json:"commit,omitempty"`
	What     string         `json:"what"`
}

func (f *Finding) matches(prop, harness string, params map[string]int, v *interp.Violation) bool {
	if f.Property != prop || f.Status != "known" {
		return false
	}
	for k, want := range f.Params {
		if got, ok := params[k]; !ok || got != want {
			return false
		}
	}
	m := func(pat, s string) bool {
		if pat == "" {
			return true
		}
		ok, err := regexp.MatchString(pat, s)
		return err == nil && ok
	}
	return m(f.Harness, harness) && (f.Kind == "" || f.Kind == v.Kind) && m(f.Label, v.Label) && m(f.Site, v.Func+" "+v.Site)
}

type violationReport struct {
	Harness   string            `json:"harness"`
	Params    map[string]int    `json:"params"`
	ScaleSet  string            `json:"scale_set"`
	Violation *interp.Violation `json:"violation"`
	Replay    string            `json:"replay_file"`
	Replayed  string            `json:"replay_outcome"` // reproduced | not-reproduced | skipped | build-failed
	Known     string            `json:"known_finding,omitempty"`
}

func (d *driver) loadFindings() []Finding {
	b, err := os.ReadFile(filepath.Join(d.verif, "known_findings.json"))
	if err != nil {
		return nil
	}
	var fs []Finding
	if err := json.Unmarshal(b, &fs); err != nil {
		fmt.Fprintf(os.Stderr, "gosym: known_findings.json: %v\n", err)
		return nil
	}
	return fs
}

func (d *driver) report(all []*result, loadTime float64) int {
	findings := d.loadFindings()
	ev := map[string]any{}
	states, transitions, traces := 0, 0, 0
	var steps int64
	solverTime := 0.0
	unknowns := 0
	var samples []any
	var inconclusive []string
	funcs := map[string]bool{}
	reachedEnd := map[string]int{}
	instancesPerHarness := map[string]int{}
	pathsPerHarness := map[string]int{}
	instancesPerEntry := map[*HarnessConfig]int{}
	pathsPerEntry := map[*HarnessConfig]int{}
	proved, concreteAsserts := 0, 0
	raceQ, raceT := 0, 0.0
	exhausted := 0
	var vreports []*violationReport
	for _, r := range all {
		res := r.res
		states += res.Paths
		transitions += res.Queries
		steps += res.Steps
		solverTime += res.SolverTime
		unknowns += res.Unknowns
		proved += res.AssertsProved
		raceQ += res.RaceQueries
		raceT += res.RaceTime
		concreteAsserts += res.AssertsConcrete
		if res.Exhausted {
			exhausted++
		}
		instancesPerHarness[res.Harness]++
		pathsPerHarness[res.Harness] += res.Completed
		instancesPerEntry[r.inst.h]++
		pathsPerEntry[r.inst.h] += res.Completed
		reachedEnd[res.Harness] += res.Reached["end"]
		for f := range res.Funcs {
			funcs[f] = true
		}
		for _, s := range res.Inconclusive {
			msg := fmt.Sprintf("%s %v: %s", res.Harness, res.Params, s)
			if len(msg) > 600 {
				msg = msg[:600] + "..."
			}
			inconclusive = append(inconclusive, msg)
		}
		if len(samples) < 12 && res.SamplePath != nil {
			samples = append(samples, map[string]any{"harness": res.Harness, "params": res.Params, "scale_set": r.scaleSet,
				"paths": res.Paths, "queries": res.Queries, "decisions_of_first_completed_path": res.SamplePath})
		}
		for _, v := range res.Violations {
			vreports = append(vreports, &violationReport{Harness: res.Harness, Params: res.Params, ScaleSet: r.scaleSet, Violation: v})
		}
	}
	// expected-violation harnesses (vacuity witnesses) invert the meaning
	expectViolation := map[string]bool{}
	for _, h := range d.cfg.Harnesses {
		if h.Expect == "violation" {
			expectViolation[h.Name] = true
		}
	}
	exit := 0
	nViol, nKnown, nUnconfirmed := 0, 0, 0
	witnessOK := map[string]bool{}
	replayDir := filepath.Join(outDir, "replays")
	os.MkdirAll(replayDir, 0o755)
	var rp *replayer
	knownPrinted := map[string]bool{}
	for i, vr := range vreports {
		if expectViolation[vr.Harness] {
			witnessOK[vr.Harness] = true
			continue
		}
		// write the replay file
		name := fmt.Sprintf("%s_%s_%d.json", d.prop, vr.Harness, i)
		path := filepath.Join(replayDir, name)
		writeReplayFile(path, d.prop, vr)
		vr.Replay = path
		for fi := range findings {
			if findings[fi].matches(d.prop, vr.Harness, vr.Params, vr.Violation) {
				vr.Known = findings[fi].What
			}
		}
		if d.noReplay {
			vr.Replayed = "skipped"
		} else {
			if rp == nil {
				rp = newReplayer(d)
			}
			vr.Replayed = rp.replay(vr, d.ovFor(all, vr))
		}
		switch {
		case vr.Replayed == "not-reproduced" || vr.Replayed == "build-failed":
			nUnconfirmed++
			fmt.Printf("UNCONFIRMED property=%s harness=%s kind=%s label=%q site=%s replay=%s (%s)\n", d.prop, vr.Harness, vr.Violation.Kind, vr.Violation.Label, vr.Violation.Site, path, vr.Replayed)
		case vr.Known != "":
			nKnown++
			if !knownPrinted[vr.Known] {
				knownPrinted[vr.Known] = true
				fmt.Printf("KNOWN-FINDING: property=%s %s\n", d.prop, vr.Known)
			}
		default:
			nViol++
			exit = 1
			fmt.Printf("VIOLATION property=%s replay=%s\n", d.prop, path)
			fmt.Printf("  harness=%s params=%v kind=%s label=%q at %s in %s (replay: %s)\n", vr.Harness, vr.Params, vr.Violation.Kind, vr.Violation.Label, vr.Violation.Site, vr.Violation.Func, vr.Replayed)
		}
	}
	if rp != nil {
		traces += rp.runs
		rp.cleanup()
	}
	if d.validation != nil {
		traces += d.validation.runs
		for _, m := range d.validation.mismatches {
			fmt.Printf("TRANSLATOR-MISMATCH: %s\n", trunc(m, 700))
		}
	}
	// vacuity: every non-witness harness must complete at least one path reaching "end"
	machinery := false
	for h, n := range instancesPerHarness {
		if expectViolation[h] {
			if !witnessOK[h] {
				fmt.Printf("BROKEN-CHECK: vacuity witness %s did not produce its expected violation\n", h)
				machinery = true
			}
			continue
		}
		_ = n
		if reachedEnd[h] == 0 && pathsPerHarness[h] == 0 {
			hadViolation := false
			for _, vr := range vreports {
				if vr.Harness == h {
					hadViolation = true
				}
			}
			if !hadViolation {
				fmt.Printf("BROKEN-CHECK: harness %s never ran to completion (vacuous)\n", h)
				machinery = true
			}
		}
	}
	for _, s := range inconclusive {
		fmt.Printf("INCONCLUSIVE: %s\n", s)
	}
	var fl []string
	for f := range funcs {
		if strings.Contains(f, "itchio/wharf") && !strings.Contains(f, "zzverif") {
			fl = append(fl, strings.ReplaceAll(f, "github.com/itchio/wharf/", ""))
		}
	}
	sort.Strings(fl)
	if len(fl) > 150 {
		fl = append(fl[:150], fmt.Sprintf("... %d more", len(fl)-150))
	}
	var harnessBounds []any
	for i := range d.cfg.Harnesses {
		h := &d.cfg.Harnesses[i]
		// only the grid entries that ran in this tier, each with its own counts
		if instancesPerEntry[h] > 0 {
			harnessBounds = append(harnessBounds, map[string]any{"harness": h.Name, "instances": instancesPerEntry[h],
				"completed_paths": pathsPerEntry[h], "bounds": h.Bounds, "scale_set": h.Scale, "note": h.Note, "param_grid": h.Params})
		}
	}
	var scaled, missing []string
	seenOv := map[*overlayInfo]bool{}
	for _, r := range all {
		if r.overlay != nil && !seenOv[r.overlay] {
			seenOv[r.overlay] = true
			scaled = append(scaled, r.overlay.scaled...)
			missing = append(missing, r.overlay.missing...)
		}
	}
	for _, m := range missing {
		fmt.Printf("INCONCLUSIVE: scaling target missing: %s\n", m)
	}
	var vsum []any
	for _, vr := range vreports {
		if expectViolation[vr.Harness] {
			continue
		}
		vsum = append(vsum, map[string]any{"harness": vr.Harness, "params": vr.Params, "kind": vr.Violation.Kind, "label": vr.Violation.Label,
			"site": vr.Violation.Site, "func": vr.Violation.Func, "replay": vr.Replay, "replay_outcome": vr.Replayed, "known_finding": vr.Known})
	}
	if len(samples) == 0 {
		samples = append(samples, map[string]any{"note": "no completed path"})
	}
	var tv any
	if d.validation != nil {
		tv = map[string]any{"differential_runs": d.validation.runs, "mismatches": len(d.validation.mismatches), "samples": d.validation.samples, "skipped": d.validation.skipped}
	}
	coverage := map[string]any{
		"translator_validation":         tv,
		"states":                        states,
		"transitions":                   transitions,
		"traces_validated_against_impl": traces,
		"samples":                       samples,
		"explanation": "states = complete symbolic paths explored (each path covers every input value satisfying its path condition); " +
			"transitions = SMT queries discharged (branch feasibility, value enumeration, assertions); traces = native replays/differential runs",
		"instances":                len(all),
		"instances_exhausted":      exhausted,
		"interpreted_instructions": steps,
		"assertions_proved_unsat":  proved,
		"race_queries":             raceQ,
		"race_solver_time_s":       round2(raceT),
		"assertions_concrete":      concreteAsserts,
		"solver":                   d.solver + " (incremental) with one-shot fallback z3-new/cvc5/z3",
		"solver_time_s":            round2(solverTime),
		"solver_unknowns":          unknowns,
		"inconclusive_items":       len(inconclusive),
		"inconclusive":             truncList(inconclusive, 20),
		"functions_encoded":        fl,
		"harness_bounds":           harnessBounds,
		"scaled_constants":         scaled,
		"scaling_targets_missing":  missing,
		"stubs":                    d.cfg.Stubs,
		"outside_the_claim":        d.cfg.Outside,
		"violations_detail":        vsum,
		"known_findings_hit":       nKnown,
		"unconfirmed":              nUnconfirmed,
		"load_time_s":              round2(loadTime),
		"exhaustive":               false,
		"code_coverage":            d.codeCov,
	}
	ev["property_id"] = d.prop
	ev["tier"] = d.tier
	if d.tier != "quick" && d.tier != "thorough" {
		ev["tier"] = "quick"
	}
	ev["seed"] = d.seed
	ev["level"] = "model_checking"
	ev["coverage"] = coverage
	ev["assumptions"] = append([]string{
		"bounded: only the instance grid listed under harness_bounds is covered; nothing is claimed outside it",
		"environment models listed under stubs are part of the claim",
		"SMT solver answers (z3 5.1.0 / cvc5 1.0 / z3 4.8.12) are trusted; any unknown/error is counted as inconclusive",
		"go/ssa construction (x/tools v0.29.0) and the gosym interpreter semantics are trusted; checked by native replay of every counterexample",
	}, d.cfg.Outside...)
	ev["wall_s"] = round2(time.Since(d.start).Seconds())
	ev["violations"] = nViol
	os.MkdirAll(outDir, 0o755)
	b, _ := json.MarshalIndent(ev, "", " ")
	os.WriteFile(filepath.Join(outDir, d.prop+".json"), b, 0o644)
	fmt.Printf("%s tier=%s: instances=%d paths=%d queries=%d proved-assertions=%d violations=%d known=%d unconfirmed=%d inconclusive=%d wall=%.1fs\n",
		d.prop, d.tier, len(all), states, transitions, proved, nViol, nKnown, nUnconfirmed, len(inconclusive), time.Since(d.start).Seconds())
	if d.validation != nil && len(d.validation.mismatches) > 0 && exit == 0 {
		fmt.Println("BROKEN-CHECK: interpreter and native build disagree on a concrete run (see TRANSLATOR-MISMATCH); verdict withheld")
		return 2
	}
	if machinery && exit == 0 {
		return 2
	}
	return exit
}

func (d *driver) ovFor(all []*result, vr *violationReport) *overlayInfo {
	for _, r := range all {
		if r.scaleSet == vr.ScaleSet && r.overlay != nil {
			return r.overlay
		}
	}
	return nil
}

func truncList(l []string, n int) []string {
	if len(l) > n {
		return append(l[:n:n], fmt.Sprintf("... %d more", len(l)-n))
	}
	return l
}

func round2(f float64) float64 { return float64(int64(f*100+0.5)) / 100 }

type replayJSON struct {
	Harness   string             `json:"harness"`
	Property  string             `json:"property"`
	ScaleSet  string             `json:"scale_set"`
	Params    map[string]int     `json:"params"`
	Inputs    []interp.InputVal  `json:"inputs"`
	Choices   []interp.ChoiceVal `json:"choices"`
	Violation *interp.Violation  `json:"violation,omitempty"`
}

func writeReplayFile(path, prop string, vr *violationReport) {
	rj := replayJSON{Harness: vr.Harness, Property: prop, ScaleSet: vr.ScaleSet, Params: vr.Params, Inputs: vr.Violation.Inputs, Choices: vr.Violation.Choices, Violation: vr.Violation}
	if rj.Inputs == nil {
		rj.Inputs = []interp.InputVal{}
	}
	if rj.Choices == nil {
		rj.Choices = []interp.ChoiceVal{}
	}
	b, _ := json.MarshalIndent(rj, "", " ")
	os.WriteFile(path, b, 0o644)
}
