package main

import (
	"fmt"
)

func (d *driver) report(all []*result, loadTime float64) int {
	viol := 0
	for _, r := range all {
		res := r.res
		fmt.Printf("%s %v paths=%d completed=%d exhausted=%v queries=%d steps=%d wall=%.2fs\n", res.Harness, res.Params, res.Paths, res.Completed, res.Exhausted, res.Queries, res.Steps, res.Wall)
		for _, s := range res.Inconclusive {
			fmt.Printf("   INCONCLUSIVE: %s\n", s)
		}
		for _, v := range res.Violations {
			viol++
			fmt.Printf("   violation %s %q at %s in %s\n", v.Kind, v.Label, v.Site, v.Func)
			for _, in := range v.Inputs {
				fmt.Printf("      %s = %d\n", in.Label, in.Value)
			}
			for _, t := range v.Trace {
				fmt.Printf("      at %s\n", t)
			}
		}
	}
	if viol > 0 {
		return 1
	}
	return 0
}
