package main

import (
	"bufio"
	"encoding/json"
	"fmt"
	"os"
	"path/filepath"
	"sort"
	"strings"

	"gosym/interp"
)

// Grid adequacy: which basic blocks of the property's anchor files were entered on at least one explored
// path (any instance, any scale set, incl. the concrete translator-validation runs). A change inside a block
// that no path enters cannot be noticed by the check, so the uncovered list is what the instance grid
// leaves out. It is a report, never a verdict.

type codeCov struct {
	AnchorFiles       []string       `json:"anchor_files"`
	BlocksTotal       int            `json:"blocks_in_anchor_files"`
	BlocksHit         int            `json:"blocks_entered"`
	PerFile           map[string]any `json:"per_file"`
	NeverEntered      []string       `json:"functions_never_entered"`
	UncoveredBlocks   []string       `json:"uncovered_non_error_blocks_in_entered_functions"`
	UncoveredOmitted  int            `json:"uncovered_blocks_not_listed"`
	UncoveredErrPaths int            `json:"uncovered_error_return_blocks"`
	Note              string         `json:"note"`
}

func (d *driver) anchorFiles() []string {
	f, err := os.Open(filepath.Join(d.verif, "properties.jsonl"))
	if err != nil {
		return nil
	}
	defer f.Close()
	sc := bufio.NewScanner(f)
	sc.Buffer(make([]byte, 1<<20), 1<<24)
	for sc.Scan() {
		var p struct {
			ID      string `json:"id"`
			Anchors struct {
				Files []string `json:"files"`
			} `json:"anchors"`
		}
		if json.Unmarshal(sc.Bytes(), &p) == nil && p.ID == d.prop {
			return p.Anchors.Files
		}
	}
	return nil
}

func (d *driver) codeCoverage(progs map[string]*interp.Program, printAll bool) *codeCov {
	anchors := d.anchorFiles()
	isAnchor := map[string]bool{}
	for _, a := range anchors {
		isAnchor[a] = true
	}
	want := func(file string) bool { return isAnchor[file] }
	type key struct {
		fn    string
		block int
	}
	type blk struct {
		file string
		line int
		hit  bool
		errp bool
	}
	merged := map[key]*blk{}
	for _, p := range progs {
		for _, b := range p.BlockCoverage(want) {
			if !isAnchor[b.File] {
				continue
			}
			k := key{b.Func, b.Block}
			if m, ok := merged[k]; ok {
				m.hit = m.hit || b.Hit
			} else {
				merged[k] = &blk{b.File, b.Line, b.Hit, b.ErrPath}
			}
		}
	}
	cc := &codeCov{AnchorFiles: anchors, PerFile: map[string]any{},
		Note: "basic blocks (go/ssa) of the functions declared in the property's anchor files that were entered on at least one explored path; blocks behind modelled boundaries or error paths the models never produce stay uncovered"}
	type fstat struct{ total, hit int }
	perFile := map[string]*fstat{}
	fnTotal, fnHit := map[string]int{}, map[string]int{}
	fnFile := map[string]string{}
	for k, b := range merged {
		st := perFile[b.file]
		if st == nil {
			st = &fstat{}
			perFile[b.file] = st
		}
		st.total++
		fnTotal[k.fn]++
		fnFile[k.fn] = b.file
		if b.hit {
			st.hit++
			fnHit[k.fn]++
		}
	}
	for f, st := range perFile {
		cc.PerFile[f] = map[string]int{"blocks": st.total, "entered": st.hit}
		cc.BlocksTotal += st.total
		cc.BlocksHit += st.hit
	}
	for fn, n := range fnTotal {
		if fnHit[fn] == 0 && n > 0 {
			cc.NeverEntered = append(cc.NeverEntered, fnFile[fn]+": "+shortName(fn))
		}
	}
	sort.Strings(cc.NeverEntered)
	var unc []string
	for k, b := range merged {
		if !b.hit && fnHit[k.fn] > 0 {
			if b.errp {
				cc.UncoveredErrPaths++
				continue
			}
			unc = append(unc, fmt.Sprintf("%s:%d %s #%d", b.file, b.line, shortName(k.fn), k.block))
		}
	}
	sort.Strings(unc)
	if printAll {
		fmt.Printf("code coverage of anchor files: %d of %d blocks entered; %d uncovered error-return blocks not listed\n", cc.BlocksHit, cc.BlocksTotal, cc.UncoveredErrPaths)
		for _, f := range cc.NeverEntered {
			fmt.Println("  never entered:", f)
		}
		for _, u := range unc {
			fmt.Println("  uncovered:", u)
		}
	}
	if len(unc) > 80 {
		cc.UncoveredOmitted = len(unc) - 80
		unc = unc[:80]
	}
	cc.UncoveredBlocks = unc
	return cc
}

func shortName(fn string) string {
	return strings.ReplaceAll(fn, "github.com/itchio/wharf/", "")
}
