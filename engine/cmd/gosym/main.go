// gosym: bounded symbolic execution of itchio/wharf from go/ssa with an SMT
// solver deciding every branch and assertion.
package main

import (
	"encoding/json"
	"flag"
	"fmt"
	"os"
	"path/filepath"
	"runtime/debug"
	"runtime/pprof"
	"sort"
	"strings"
	"sync"
	"time"

	"gosym/interp"
)

// repoDir is /repo for every registered command; -repo / -out exist only so that seeded changes can be
// tried against a scratch worktree without touching /repo or the committed evidence.
var repoDir = "/repo"
var outDir = ""

const modPath = "github.com/itchio/wharf"

// Config is harness/<prop>/config.json.
type Config struct {
	Property  string          `json:"property"`
	Package   string          `json:"package"`   // sub-package under zzverif (directory name in /verif/harness)
	InPackage string          `json:"inpackage"` // if set, harness files are overlaid into this repo package dir instead
	Scale     []ScaleRule     `json:"scale"`
	Models    []string        `json:"models"` // extra model packages under /verif/harness to load
	Harnesses []HarnessConfig `json:"harnesses"`
	Functions []string        `json:"functions_encoded"`
	Stubs     []string        `json:"stubs"`
	Outside   []string        `json:"outside"`
}

type HarnessConfig struct {
	Name         string           `json:"name"`
	Tiers        []string         `json:"tiers"`  // quick, thorough
	Params       map[string][]int `json:"params"` // cartesian grid
	ParamSets    []map[string]int `json:"param_sets"`
	Skip         string           `json:"skip"`
	MaxSteps     int64            `json:"max_steps"`
	MaxPaths     int              `json:"max_paths"`
	MaxDecisions int              `json:"max_decisions"`
	Preemptions  *int             `json:"preemptions"`
	Scale        string           `json:"scale"` // name of a scale set ("" = none)
	Note         string           `json:"note"`
	Bounds       string           `json:"bounds"`
	Expect       string           `json:"expect"`   // "violation" for vacuity witnesses
	Concrete     int              `json:"concrete"` // number of concrete translator-validation runs
	MaxSeconds   int              `json:"max_seconds"`
	NoValidate   bool             `json:"novalidate"` // outcome is schedule-dependent natively: not used for translator validation
}

type ScaleRule struct {
	Set   string `json:"set"`
	File  string `json:"file"`  // repo-relative
	Ident string `json:"ident"` // constant name (package-level or function-local)
	Func  string `json:"func"`  // optional enclosing function for local constants / statements
	Value string `json:"value"` // replacement expression text
	Match string `json:"match"` // optional: source text of the expression to replace (statement-level rewrite)
}

type instance struct {
	h      *HarnessConfig
	params map[string]int
}

func main() {
	prop := flag.String("prop", "", "property id (C01..C19)")
	tier := flag.String("tier", "quick", "quick|thorough")
	workers := flag.Int("workers", 14, "parallel workers")
	seed := flag.Int64("seed", 1, "seed")
	verifDir := flag.String("verif", "/verif", "verif directory")
	only := flag.String("harness", "", "only harnesses whose name contains this")
	verbose := flag.Int("v", 0, "verbosity")
	solver := flag.String("solver", "z3-new", "z3|z3-new|cvc5")
	paramOverride := flag.String("params", "", "override: k=v,k=v (single instance)")
	noReplay := flag.Bool("no-replay", false, "do not replay violations natively")
	replayFile := flag.String("replay", "", "replay a recorded counterexample natively")
	cpuprof := flag.String("cpuprofile", "", "write cpu profile")
	nValidate := flag.Int("validate", 4, "number of concrete engine-vs-native differential runs")
	maxSec := flag.Int("max-seconds", 0, "per-instance deadline override")
	maxStepsFlag := flag.Int64("max-steps", 0, "development only: per-path instruction budget override")
	covFlag := flag.Bool("cov", false, "print the uncovered basic blocks of the property's anchor files")
	repoFlag := flag.String("repo", "/repo", "development only: source tree to check instead of /repo")
	outFlag := flag.String("out", "", "development only: directory for evidence and replays instead of <verif>/evidence")
	flag.Parse()
	repoDir = *repoFlag
	outDir = *outFlag
	if outDir == "" {
		outDir = filepath.Join(*verifDir, "evidence")
	}
	interp.RepoPrefix = repoDir + "/"
	debug.SetGCPercent(800)
	debug.SetMemoryLimit(20 << 30) // soft: the collector works harder instead of letting the heap reach 9x live
	if *cpuprof != "" {
		f, _ := os.Create(*cpuprof)
		pprof.StartCPUProfile(f)
		defer pprof.StopCPUProfile()
	}
	if *replayFile != "" {
		os.Exit(replayMain(*replayFile, *verifDir))
	}
	if *prop == "" {
		fmt.Fprintln(os.Stderr, "usage: gosym -prop C11 [-tier quick]")
		os.Exit(2)
	}
	if s := os.Getenv("VERIF_SEED"); s != "" {
		fmt.Sscan(s, seed)
	}
	if t := os.Getenv("VERIF_TIER"); t != "" && !flagSet("tier") {
		*tier = t
	}
	d := &driver{prop: *prop, tier: *tier, workers: *workers, seed: *seed, verif: *verifDir, only: *only,
		verbose: *verbose, solver: *solver, paramOverride: *paramOverride, noReplay: *noReplay, maxSec: *maxSec, nValidate: *nValidate, printCov: *covFlag, maxSteps: *maxStepsFlag}
	code := d.main()
	pprof.StopCPUProfile()
	os.Exit(code)
}

func flagSet(name string) bool {
	set := false
	flag.Visit(func(f *flag.Flag) {
		if f.Name == name {
			set = true
		}
	})
	return set
}

type driver struct {
	prop, tier    string
	workers       int
	seed          int64
	verif         string
	only          string
	verbose       int
	solver        string
	paramOverride string
	noReplay      bool
	nValidate     int
	validation    *validationOutcome
	maxSec        int
	maxSteps      int64
	printCov      bool
	codeCov       *codeCov

	cfg   Config
	start time.Time
}

func (d *driver) fatal(format string, a ...any) int {
	fmt.Fprintf(os.Stderr, "gosym: machinery failure: "+format+"\n", a...)
	return 2
}

func (d *driver) main() int {
	d.start = time.Now()
	hdir := filepath.Join(d.verif, "harness", strings.ToLower(d.prop))
	b, err := os.ReadFile(filepath.Join(hdir, "config.json"))
	if err != nil {
		return d.fatal("%v", err)
	}
	if err := json.Unmarshal(b, &d.cfg); err != nil {
		return d.fatal("config: %v", err)
	}
	// group instances by scale set (each set needs its own program load)
	bySet := map[string][]instance{}
	for i := range d.cfg.Harnesses {
		h := &d.cfg.Harnesses[i]
		if !contains(h.Tiers, d.tier) {
			continue
		}
		if d.only != "" && !strings.Contains(h.Name, d.only) {
			continue
		}
		for _, ps := range expand(h, d.paramOverride) {
			bySet[h.Scale] = append(bySet[h.Scale], instance{h, ps})
		}
	}
	var sets []string
	for s := range bySet {
		sets = append(sets, s)
	}
	sort.Strings(sets)
	if len(sets) == 0 {
		return d.fatal("no harness instances selected for %s tier %s", d.prop, d.tier)
	}
	var all []*result
	progs := map[string]*interp.Program{}
	loadTime := 0.0
	for _, set := range sets {
		t0 := time.Now()
		prog, ov, err := d.load(hdir, set)
		if err != nil {
			return d.fatal("loading /repo with harness overlay (scale set %q): %v", set, err)
		}
		loadTime += time.Since(t0).Seconds()
		if d.verbose > 0 {
			fmt.Printf("loaded (scale set %q) in %.1fs, %d instances\n", set, time.Since(t0).Seconds(), len(bySet[set]))
		}
		progs[set] = prog
		res := d.explore(prog, bySet[set])
		for _, r := range res {
			r.scaleSet = set
			r.overlay = ov
		}
		all = append(all, res...)
	}
	d.validation = d.validate(all, progs, d.nValidate)
	d.codeCov = d.codeCoverage(progs, d.printCov)
	return d.report(all, loadTime)
}

type result struct {
	inst     instance
	res      *interp.InstanceResult
	scaleSet string
	overlay  *overlayInfo
}

func contains(ss []string, s string) bool {
	for _, x := range ss {
		if x == s {
			return true
		}
	}
	return false
}

func expand(h *HarnessConfig, override string) []map[string]int {
	if override != "" {
		ps := map[string]int{}
		for _, kv := range strings.Split(override, ",") {
			var k string
			var v int
			parts := strings.SplitN(kv, "=", 2)
			k = parts[0]
			fmt.Sscan(parts[1], &v)
			ps[k] = v
		}
		return []map[string]int{ps}
	}
	var out []map[string]int
	if len(h.ParamSets) > 0 {
		for _, ps := range h.ParamSets {
			out = append(out, ps)
		}
	}
	if len(h.Params) == 0 {
		if len(out) == 0 {
			out = append(out, map[string]int{})
		}
		return out
	}
	var keys []string
	for k := range h.Params {
		keys = append(keys, k)
	}
	sort.Strings(keys)
	cur := map[string]int{}
	var rec func(i int)
	rec = func(i int) {
		if i == len(keys) {
			c := map[string]int{}
			for k, v := range cur {
				c[k] = v
			}
			out = append(out, c)
			return
		}
		for _, v := range h.Params[keys[i]] {
			cur[keys[i]] = v
			rec(i + 1)
		}
	}
	rec(0)
	return out
}

func (d *driver) explore(prog *interp.Program, insts []instance) []*result {
	results := make([]*result, len(insts))
	var mu sync.Mutex
	next := 0
	var wg sync.WaitGroup
	nw := d.workers
	if nw > len(insts) {
		nw = len(insts)
	}
	pkgPath := d.harnessPkgPath()
	for wi := 0; wi < nw; wi++ {
		wg.Add(1)
		go func(wi int) {
			defer wg.Done()
			w, err := interp.NewWorker(prog, wi, d.solver, interp.Limits{})
			if err != nil {
				fmt.Fprintln(os.Stderr, "worker:", err)
				return
			}
			w.Verbose = d.verbose
			defer w.Close()
			for {
				mu.Lock()
				i := next
				next++
				mu.Unlock()
				if i >= len(insts) {
					return
				}
				in := insts[i]
				fn := prog.Func(pkgPath, in.h.Name)
				if fn == nil {
					results[i] = &result{inst: in, res: &interp.InstanceResult{Harness: in.h.Name, Params: in.params,
						Inconclusive: []string{"harness function not found in " + pkgPath}}}
					continue
				}
				lim := interp.Limits{MaxSteps: 50_000_000, MaxPaths: 200000, MaxDecisions: 5000, Preemptions: -1, MaxValues: 64}
				if in.h.MaxSteps > 0 {
					lim.MaxSteps = in.h.MaxSteps
				}
				if d.maxSteps > 0 {
					lim.MaxSteps = d.maxSteps
				}
				if in.h.MaxPaths > 0 {
					lim.MaxPaths = in.h.MaxPaths
				}
				if in.h.MaxDecisions > 0 {
					lim.MaxDecisions = in.h.MaxDecisions
				}
				if in.h.Preemptions != nil {
					lim.Preemptions = *in.h.Preemptions
				}
				if d.maxSec > 0 {
					in.h.MaxSeconds = d.maxSec
				}
				if in.h.MaxSeconds == 0 {
					// default per-instance deadline: a run-away instance is reported as inconclusive
					in.h.MaxSeconds = 300
					if d.tier == "thorough" {
						in.h.MaxSeconds = 1800
					}
				}
				if in.h.MaxSeconds > 0 {
					lim.Deadline = time.Now().Add(time.Duration(in.h.MaxSeconds) * time.Second)
				}
				w.Lim = lim
				r := w.ExploreInstance(fn, in.params, nil)
				results[i] = &result{inst: in, res: r}
				if d.verbose > 0 {
					fmt.Printf("  %s %v: paths=%d completed=%d viol=%d inconc=%d queries=%d (feas-unknown %d, fallbacks %d, solver %.1fs) steps=%d %.2fs\n", in.h.Name, in.params,
						r.Paths, r.Completed, len(r.Violations), len(r.Inconclusive), r.Queries, r.FeasUnknown, r.Fallbacks, r.SolverTime, r.Steps, r.Wall)
					if d.verbose > 1 {
						fmt.Printf("     reached: %v\n", r.Reached)
					}
				}
			}
		}(wi)
	}
	wg.Wait()
	return results
}

func (d *driver) harnessPkgPath() string {
	if d.cfg.InPackage != "" {
		return modPath + "/" + d.cfg.InPackage
	}
	return modPath + "/zzverif/" + d.cfg.Package
}
