package main

import (
	"fmt"
	"go/ast"
	"go/parser"
	"go/token"
	"os"
	"path/filepath"
	"strings"

	"gosym/interp"
)

type overlayInfo struct {
	files   map[string][]byte // virtual path -> content
	scaled  []string          // human-readable list of applied scalings
	missing []string          // scaling targets not found
}

// buildOverlay assembles the virtual files: rt, model, harness sources, scaled constants.
func (d *driver) buildOverlay(hdir, set string) (*overlayInfo, error) {
	ov := &overlayInfo{files: map[string][]byte{}}
	addDir := func(src, dst string) error {
		ents, err := os.ReadDir(src)
		if err != nil {
			return err
		}
		for _, e := range ents {
			if e.IsDir() || !strings.HasSuffix(e.Name(), ".go") {
				continue
			}
			b, err := os.ReadFile(filepath.Join(src, e.Name()))
			if err != nil {
				return err
			}
			ov.files[filepath.Join(dst, e.Name())] = b
		}
		return nil
	}
	if err := addDir(filepath.Join(d.verif, "harness", "rt"), filepath.Join(repoDir, "zzverif", "rt")); err != nil {
		return nil, err
	}
	if err := addDir(filepath.Join(d.verif, "harness", "model"), filepath.Join(repoDir, "zzverif", "model")); err != nil {
		return nil, err
	}
	for _, m := range d.cfg.Models {
		if err := addDir(filepath.Join(d.verif, "harness", m), filepath.Join(repoDir, "zzverif", m)); err != nil {
			return nil, err
		}
	}
	if _, err := os.Stat(filepath.Join(d.verif, "harness", "hlib")); err == nil {
		if err := addDir(filepath.Join(d.verif, "harness", "hlib"), filepath.Join(repoDir, "zzverif", "hlib")); err != nil {
			return nil, err
		}
	}
	if d.cfg.InPackage != "" {
		ents, _ := os.ReadDir(hdir)
		for _, e := range ents {
			if strings.HasSuffix(e.Name(), ".go") {
				b, _ := os.ReadFile(filepath.Join(hdir, e.Name()))
				ov.files[filepath.Join(repoDir, d.cfg.InPackage, "zz_verif_"+e.Name())] = b
			}
		}
	} else {
		if err := addDir(hdir, filepath.Join(repoDir, "zzverif", d.cfg.Package)); err != nil {
			return nil, err
		}
	}
	// scaled constants
	if set != "" {
		byFile := map[string][]ScaleRule{}
		for _, r := range d.cfg.Scale {
			if r.Set == set || r.Set == "*" {
				byFile[r.File] = append(byFile[r.File], r)
			}
		}
		for file, rules := range byFile {
			path := filepath.Join(repoDir, file)
			src, err := os.ReadFile(path)
			if err != nil {
				for _, r := range rules {
					ov.missing = append(ov.missing, fmt.Sprintf("%s:%s (file unreadable)", r.File, r.Ident))
				}
				continue
			}
			out, applied, missing := rewriteConsts(path, src, rules)
			ov.scaled = append(ov.scaled, applied...)
			ov.missing = append(ov.missing, missing...)
			ov.files[path] = out
		}
	}
	return ov, nil
}

type splice struct {
	from, to int
	text     string
}

// rewriteConsts replaces the value expressions of named constants (or matched
// expressions) in src. Only the declared value changes; every use is untouched.
func rewriteConsts(path string, src []byte, rules []ScaleRule) ([]byte, []string, []string) {
	fset := token.NewFileSet()
	f, err := parser.ParseFile(fset, path, src, parser.ParseComments)
	var applied, missing []string
	if err != nil {
		for _, r := range rules {
			missing = append(missing, fmt.Sprintf("%s:%s (parse error)", r.File, r.Ident))
		}
		return src, nil, missing
	}
	var sp []splice
	for _, r := range rules {
		found := false
		var scope ast.Node = f
		if r.Func != "" {
			scope = nil
			for _, decl := range f.Decls {
				if fd, ok := decl.(*ast.FuncDecl); ok && fd.Name.Name == r.Func {
					scope = fd
				}
			}
			if scope == nil {
				missing = append(missing, fmt.Sprintf("%s: func %s not found", r.File, r.Func))
				continue
			}
		}
		if r.Match != "" {
			// expression-level rewrite: first expression in scope whose source text equals Match
			ast.Inspect(scope, func(n ast.Node) bool {
				if found || n == nil {
					return false
				}
				e, ok := n.(ast.Expr)
				if !ok {
					return true
				}
				from, to := fset.Position(e.Pos()).Offset, fset.Position(e.End()).Offset
				if string(src[from:to]) == r.Match {
					sp = append(sp, splice{from, to, r.Value})
					found = true
					return false
				}
				return true
			})
		} else {
			ast.Inspect(scope, func(n ast.Node) bool {
				if found || n == nil {
					return false
				}
				vs, ok := n.(*ast.ValueSpec)
				if !ok {
					return true
				}
				for i, name := range vs.Names {
					if name.Name == r.Ident && i < len(vs.Values) {
						e := vs.Values[i]
						from, to := fset.Position(e.Pos()).Offset, fset.Position(e.End()).Offset
						sp = append(sp, splice{from, to, r.Value})
						found = true
						return false
					}
				}
				return true
			})
		}
		what := r.Ident
		if what == "" {
			what = "`" + r.Match + "`"
		}
		if found {
			applied = append(applied, fmt.Sprintf("%s: %s = %s", r.File, what, r.Value))
		} else {
			missing = append(missing, fmt.Sprintf("%s: %s not found", r.File, what))
		}
	}
	// apply splices from the end
	for i := 0; i < len(sp); i++ {
		for j := i + 1; j < len(sp); j++ {
			if sp[j].from > sp[i].from {
				sp[i], sp[j] = sp[j], sp[i]
			}
		}
	}
	out := append([]byte(nil), src...)
	for _, s := range sp {
		out = append(out[:s.from:s.from], append([]byte(s.text), out[s.to:]...)...)
	}
	return out, applied, missing
}

func (d *driver) load(hdir, set string) (*interp.Program, *overlayInfo, error) {
	ov, err := d.buildOverlay(hdir, set)
	if err != nil {
		return nil, nil, err
	}
	patterns := []string{modPath + "/zzverif/rt", modPath + "/zzverif/model"}
	for _, m := range d.cfg.Models {
		patterns = append(patterns, modPath+"/zzverif/"+m)
	}
	if d.cfg.InPackage != "" {
		patterns = append(patterns, modPath+"/"+d.cfg.InPackage)
	} else {
		patterns = append(patterns, modPath+"/zzverif/"+d.cfg.Package)
	}
	prog, err := interp.Load(interp.LoadConfig{
		Dir:      repoDir,
		Patterns: patterns,
		Overlay:  ov.files,
		Env:      []string{"GOFLAGS=-mod=mod", "GOPROXY=off"},
	})
	if err != nil {
		return nil, ov, err
	}
	return prog, ov, nil
}
