package main

import (
	"bytes"
	"encoding/json"
	"fmt"
	"os"
	"os/exec"
	"path/filepath"
	"runtime"
	"strings"
	"time"

	"gosym/interp"
)

// replayer builds the harness package natively (go test -c with an overlay)
// and runs recorded counterexamples against the real code.
type replayer struct {
	d    *driver
	tmp  string
	bins map[string]string // scale set -> test binary ("" = build failed)
	errs map[string]string
	runs int
}

func newReplayer(d *driver) *replayer {
	tmp, err := os.MkdirTemp("", "gosym-replay-")
	if err != nil {
		tmp = ""
	}
	return &replayer{d: d, tmp: tmp, bins: map[string]string{}, errs: map[string]string{}}
}

func (rp *replayer) cleanup() {
	if rp.tmp != "" {
		os.RemoveAll(rp.tmp)
	}
}

func (rp *replayer) pkgName() string {
	if rp.d.cfg.InPackage != "" {
		return filepath.Base(rp.d.cfg.InPackage)
	}
	return rp.d.cfg.Package
}

func (rp *replayer) build(set string, ov *overlayInfo) string {
	return rp.buildWith(set, ov, false)
}

func (rp *replayer) buildWith(set string, ov *overlayInfo, race bool) string {
	key := set
	if race {
		key = set + "+race"
	}
	if bin, ok := rp.bins[key]; ok {
		return bin
	}
	defer func(k string) {
		if k != set {
			rp.bins[k] = rp.bins[set]
			delete(rp.bins, set)
		}
	}(key)
	delete(rp.bins, set)
	rp.bins[set] = ""
	if rp.tmp == "" || ov == nil {
		rp.errs[set] = "no temp dir / overlay"
		return ""
	}
	dir := filepath.Join(rp.tmp, "set_"+key)
	os.MkdirAll(dir, 0o755)
	replace := map[string]string{}
	n := 0
	var pkgDir string
	if rp.d.cfg.InPackage != "" {
		pkgDir = filepath.Join(repoDir, rp.d.cfg.InPackage)
	} else {
		pkgDir = filepath.Join(repoDir, "zzverif", rp.d.cfg.Package)
	}
	for vpath, content := range ov.files {
		if strings.Contains(vpath, "/zzverif/model/") || strings.Contains(vpath, "/zzverif/modelzip/") {
			continue
		}
		n++
		real := filepath.Join(dir, fmt.Sprintf("f%d_%s", n, filepath.Base(vpath)))
		if err := os.WriteFile(real, content, 0o644); err != nil {
			rp.errs[set] = err.Error()
			return ""
		}
		replace[vpath] = real
	}
	// generated test entry point
	var sb strings.Builder
	fmt.Fprintf(&sb, "package %s\n\nimport (\n\t\"fmt\"\n\t\"testing\"\n\n\trt \"%s/zzverif/rt\"\n)\n\n", rp.pkgName(), modPath)
	sb.WriteString("var zzHarnesses = map[string]func(){\n")
	seen := map[string]bool{}
	for _, h := range rp.d.cfg.Harnesses {
		if !seen[h.Name] {
			seen[h.Name] = true
			fmt.Fprintf(&sb, "\t%q: %s,\n", h.Name, h.Name)
		}
	}
	sb.WriteString("}\n\n")
	sb.WriteString(`func TestReplay(t *testing.T) {
	name := rt.HarnessName()
	fn := zzHarnesses[name]
	if fn == nil {
		t.Fatalf("REPLAY-ERROR unknown harness %q", name)
	}
	rt.Reset()
	func() {
		defer func() {
			if e := recover(); e != nil {
				if rt.IsAssumeFailure(e) {
					fmt.Println("REPLAY-VOID assumption failed")
					return
				}
				// what was observed before the panic still counts (an assertion may have failed already)
				for _, o := range rt.Observed {
					fmt.Printf("REPLAY-OBS %s\n", o)
				}
				for _, f := range rt.Failures {
					fmt.Printf("REPLAY-FAIL %s\n", f)
				}
				fmt.Printf("REPLAY-PANIC %v\n", e)
				panic(e)
			}
		}()
		fn()
	}()
	for _, o := range rt.Observed {
		fmt.Printf("REPLAY-OBS %s\n", o)
	}
	for _, f := range rt.Failures {
		fmt.Printf("REPLAY-FAIL %s\n", f)
	}
	fmt.Println("REPLAY-DONE")
	if len(rt.Failures) > 0 {
		t.FailNow()
	}
}
`)
	testFile := filepath.Join(dir, "zz_replay_test.go")
	os.WriteFile(testFile, []byte(sb.String()), 0o644)
	replace[filepath.Join(pkgDir, "zz_replay_test.go")] = testFile
	ovJSON, _ := json.Marshal(map[string]any{"Replace": replace})
	ovPath := filepath.Join(dir, "overlay.json")
	os.WriteFile(ovPath, ovJSON, 0o644)
	bin := filepath.Join(dir, "replay.test")
	rel, _ := filepath.Rel(repoDir, pkgDir)
	args := []string{"test", "-c", "-vet=off", "-overlay", ovPath, "-o", bin}
	if race {
		args = append(args, "-race")
	}
	cmd := exec.Command("go", append(args, "./"+rel)...)
	cmd.Dir = repoDir
	cmd.Env = append(os.Environ(), "GOFLAGS=-mod=mod", "GOPROXY=off", "GOCACHE="+goCache())
	out, err := cmd.CombinedOutput()
	if err != nil {
		rp.errs[set] = fmt.Sprintf("go test -c failed: %v\n%s", err, trunc(string(out), 2000))
		fmt.Fprintln(os.Stderr, "gosym: replay build:", rp.errs[set])
		return ""
	}
	rp.bins[set] = bin
	return bin
}

func goCache() string {
	if c := os.Getenv("GOCACHE"); c != "" {
		return c
	}
	home, _ := os.UserHomeDir()
	return filepath.Join(home, ".cache", "go-build")
}

func trunc(s string, n int) string {
	if len(s) > n {
		return s[:n] + "..."
	}
	return s
}

// run executes the replay binary once on the given replay file.
func (rp *replayer) run(bin, replayFile string, timeout time.Duration, env ...string) (string, error) {
	cmd := exec.Command(bin, "-test.run", "^TestReplay$", "-test.timeout", timeout.String(), "-test.v")
	cmd.Env = append(append(os.Environ(), "VERIF_REPLAY="+replayFile), env...)
	for envName, prm := range interp.EnvParams {
		if replayParam(replayFile, prm) == 1 {
			cmd.Env = append(cmd.Env, envName+"=1")
			env = append(env, envName+"=1")
		}
	}
	if n := replayParam(replayFile, "numcpu"); n > 0 && n < runtime.NumCPU() {
		// the instance fixes the number of CPUs the code sees: pin the native process accordingly
		// (runtime.NumCPU reads the affinity mask at start-up)
		if ts, err := exec.LookPath("taskset"); err == nil {
			cmd = exec.Command(ts, "-c", fmt.Sprintf("0-%d", n-1), bin, "-test.run", "^TestReplay$", "-test.timeout", timeout.String(), "-test.v")
			cmd.Env = append(append(append(os.Environ(), "VERIF_REPLAY="+replayFile), env...), fmt.Sprintf("GOMAXPROCS=%d", n))
		}
	}
	cmd.Dir = rp.tmp
	var buf bytes.Buffer
	cmd.Stdout = &buf
	cmd.Stderr = &buf
	err := cmd.Run()
	rp.runs++
	return buf.String(), err
}

func (rp *replayer) replay(vr *violationReport, ov *overlayInfo) string {
	v := vr.Violation
	if v.Kind == "race" {
		// confirm with the Go race detector on the native build
		bin := rp.buildWith(vr.ScaleSet, ov, true)
		if bin == "" {
			return "build-failed"
		}
		last := ""
		for i := 0; i < 12; i++ {
			out, _ := rp.run(bin, vr.Replay, 120*time.Second, "GOMAXPROCS="+[]string{"4", "16", "2"}[i%3])
			last = out
			if strings.Contains(out, "WARNING: DATA RACE") {
				os.WriteFile(strings.TrimSuffix(vr.Replay, ".json")+".native.txt", []byte(trunc(out, 20000)), 0o644)
				return "reproduced"
			}
		}
		os.WriteFile(strings.TrimSuffix(vr.Replay, ".json")+".native.txt", []byte(trunc(last, 20000)), 0o644)
		return "not-reproduced"
	}
	bin := rp.build(vr.ScaleSet, ov)
	if bin == "" {
		return "build-failed"
	}
	tries := 1
	schedDependent := false
	for _, c := range v.Choices {
		if c.Kind == "sched" || c.Kind == "select" || c.Kind == "maporder" {
			schedDependent = true
		}
	}
	if schedDependent || v.Kind == "deadlock" || v.Kind == "goroutine-panic" {
		tries = 30
	}
	timeout := 60 * time.Second
	if v.Kind == "deadlock" || v.Kind == "nontermination" {
		timeout = 10 * time.Second
	}
	last := ""
	for i := 0; i < tries; i++ {
		procs := []string{"1", "2", "4", "16"}[i%4]
		out, err := rp.run(bin, vr.Replay, timeout, "GOMAXPROCS="+procs)
		last = out
		if strings.Contains(out, "REPLAY-VOID") {
			continue
		}
		switch v.Kind {
		case "assert":
			// (the assertion outcome is logged when it happens: a later panic of the harness, which stops the
			// native run before its summary, does not hide it)
			if strings.Contains(out, "REPLAY-FAIL "+v.Label) || strings.Contains(out, "REPLAY-OBS assert:"+v.Label+"=false") {
				os.WriteFile(strings.TrimSuffix(vr.Replay, ".json")+".native.txt", []byte(trunc(out, 20000)), 0o644)
				return "reproduced"
			}
		case "panic", "goroutine-panic":
			if err != nil && (strings.Contains(out, "REPLAY-PANIC") || strings.Contains(out, "panic:") || strings.Contains(out, "fatal error:")) {
				return "reproduced"
			}
		case "deadlock":
			if err != nil && (strings.Contains(out, "all goroutines are asleep") || strings.Contains(out, "test timed out")) {
				return "reproduced"
			}
		case "nontermination":
			if err != nil && strings.Contains(out, "test timed out") {
				return "reproduced"
			}
		}
	}
	// keep the last output next to the replay file for inspection
	os.WriteFile(strings.TrimSuffix(vr.Replay, ".json")+".native.txt", []byte(trunc(last, 20000)), 0o644)
	return "not-reproduced"
}

// replayMain implements `gosym -replay file`: rebuild the harness natively from
// /repo's current tree and run the recorded counterexample.
func replayMain(file, verif string) int {
	b, err := os.ReadFile(file)
	if err != nil {
		fmt.Fprintln(os.Stderr, err)
		return 2
	}
	var rj replayJSON
	if err := json.Unmarshal(b, &rj); err != nil || rj.Property == "" || rj.Violation == nil {
		fmt.Fprintln(os.Stderr, "not a gosym replay file")
		return 2
	}
	d := &driver{prop: rj.Property, verif: verif}
	hdir := filepath.Join(verif, "harness", strings.ToLower(rj.Property))
	cb, err := os.ReadFile(filepath.Join(hdir, "config.json"))
	if err != nil {
		fmt.Fprintln(os.Stderr, err)
		return 2
	}
	if err := json.Unmarshal(cb, &d.cfg); err != nil {
		fmt.Fprintln(os.Stderr, err)
		return 2
	}
	ov, err := d.buildOverlay(hdir, rj.ScaleSet)
	if err != nil {
		fmt.Fprintln(os.Stderr, err)
		return 2
	}
	rp := newReplayer(d)
	defer rp.cleanup()
	abs, _ := filepath.Abs(file)
	vr := &violationReport{Harness: rj.Harness, Params: rj.Params, ScaleSet: rj.ScaleSet, Violation: rj.Violation, Replay: abs}
	out := rp.replay(vr, ov)
	fmt.Printf("replay of %s (%s %s %q): %s\n", file, rj.Harness, rj.Violation.Kind, rj.Violation.Label, out)
	if out == "reproduced" {
		return 1
	}
	if out == "build-failed" {
		return 2
	}
	return 0
}

// replayParam returns an instance parameter of a replay file (0 if absent).
func replayParam(replayFile, name string) int {
	b, err := os.ReadFile(replayFile)
	if err != nil {
		return 0
	}
	var r struct {
		Params map[string]int `json:"params"`
	}
	if json.Unmarshal(b, &r) != nil {
		return 0
	}
	return r.Params[name]
}
