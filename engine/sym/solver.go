package sym

import (
	"bufio"
	"fmt"
	"io"
	"os/exec"
	"strconv"
	"strings"
	"time"
)

type Result int

const (
	Unsat Result = iota
	Sat
	Unknown
)

func (r Result) String() string { return [...]string{"unsat", "sat", "unknown"}[r] }

// Solver is a persistent SMT solver process driven over stdin/stdout.
// Definitions are global (never popped); assertions follow push/pop.
type Solver struct {
	Kind    string // z3 | z3-new | cvc5
	cmd     *exec.Cmd
	in      io.WriteCloser
	out     *bufio.Reader
	defined map[int32]bool
	depth   int
	// statistics
	Queries  int
	Unknowns int
	Errors   int
	Time     time.Duration
	LastErr  string
	TimeoutMs int
	Log      io.Writer
}

func NewSolver(kind string, timeoutMs int) (*Solver, error) {
	s := &Solver{Kind: kind, TimeoutMs: timeoutMs}
	if err := s.start(); err != nil {
		return nil, err
	}
	return s, nil
}

func (s *Solver) start() error {
	var cmd *exec.Cmd
	switch s.Kind {
	case "z3", "z3-new":
		cmd = exec.Command(s.Kind, "-in", "-smt2")
	case "cvc5":
		cmd = exec.Command("cvc5", "--incremental", "--lang=smt2", "--produce-models", fmt.Sprintf("--tlimit-per=%d", s.TimeoutMs))
	default:
		return fmt.Errorf("unknown solver %q", s.Kind)
	}
	in, err := cmd.StdinPipe()
	if err != nil {
		return err
	}
	out, err := cmd.StdoutPipe()
	if err != nil {
		return err
	}
	cmd.Stderr = nil
	if err := cmd.Start(); err != nil {
		return err
	}
	s.cmd, s.in, s.out = cmd, in, bufio.NewReaderSize(out, 1<<16)
	s.defined = map[int32]bool{}
	s.depth = 0
	s.send("(set-option :print-success false)")
	s.send("(set-option :produce-models true)")
	s.send("(set-option :global-declarations true)")
	if s.Kind != "cvc5" {
		s.send(fmt.Sprintf("(set-option :timeout %d)", s.TimeoutMs))
	} else {
		s.send("(set-logic QF_BV)")
	}
	return nil
}

func (s *Solver) Close() {
	if s.cmd != nil {
		s.in.Close()
		s.cmd.Process.Kill()
		s.cmd.Wait()
		s.cmd = nil
	}
}

// Restart kills the process and starts a fresh one (depth 0, nothing defined).
func (s *Solver) Restart() error {
	s.Close()
	return s.start()
}

func (s *Solver) NumDefined() int { return len(s.defined) }

func (s *Solver) send(line string) {
	if s.Log != nil {
		fmt.Fprintln(s.Log, line)
	}
	io.WriteString(s.in, line)
	io.WriteString(s.in, "\n")
}

// define makes sure t (and all its sub-terms) are known to the solver.
func (s *Solver) define(t *Term) {
	if t.Op == OConst || s.defined[t.ID] {
		return
	}
	// iterative post-order to avoid deep recursion on long chains
	type fr struct {
		t *Term
		i int
	}
	stack := []fr{{t, 0}}
	for len(stack) > 0 {
		top := &stack[len(stack)-1]
		kids := [3]*Term{top.t.A, top.t.B, top.t.C}
		pushed := false
		for top.i < 3 {
			k := kids[top.i]
			top.i++
			if k != nil && k.Op != OConst && !s.defined[k.ID] {
				stack = append(stack, fr{k, 0})
				pushed = true
				break
			}
		}
		if pushed {
			continue
		}
		x := top.t
		stack = stack[:len(stack)-1]
		if s.defined[x.ID] {
			continue
		}
		s.defined[x.ID] = true
		if x.Op == OSym {
			s.send(fmt.Sprintf("(declare-const %s %s)", x.Name, sortOf(x.W)))
		} else {
			s.send(fmt.Sprintf("(define-fun t%d () %s %s)", x.ID, sortOf(x.W), Body(x)))
		}
	}
}

func (s *Solver) Depth() int { return s.depth }

func (s *Solver) Push() {
	s.send("(push 1)")
	s.depth++
}

func (s *Solver) Pop(n int) {
	if n <= 0 {
		return
	}
	s.send(fmt.Sprintf("(pop %d)", n))
	s.depth -= n
}

func (s *Solver) Assert(t *Term) {
	s.define(t)
	s.send("(assert " + Ref(t) + ")")
}

func (s *Solver) readLine() (string, error) {
	line, err := s.out.ReadString('\n')
	return strings.TrimSpace(line), err
}

// Check runs (check-sat) on the current assertion stack.
func (s *Solver) Check() Result {
	t0 := time.Now()
	s.Queries++
	s.send("(check-sat)")
	var res Result = Unknown
	sawErr := false
	for {
		line, err := s.readLine()
		if err != nil {
			s.LastErr = "solver died: " + err.Error()
			sawErr = true
			break
		}
		if line == "" {
			continue
		}
		if strings.HasPrefix(line, "(error") {
			s.LastErr = line
			sawErr = true
			continue
		}
		switch line {
		case "sat":
			res = Sat
		case "unsat":
			res = Unsat
		case "unknown", "timeout":
			res = Unknown
		default:
			s.LastErr = "unexpected: " + line
			sawErr = true
			continue
		}
		break
	}
	if sawErr {
		// any error line makes the query inconclusive
		s.Errors++
		res = Unknown
	}
	if res == Unknown {
		s.Unknowns++
	}
	s.Time += time.Since(t0)
	return res
}

// CheckAssuming checks the stack plus the extra literal, leaving the stack unchanged.
func (s *Solver) CheckAssuming(t *Term) Result {
	s.define(t)
	s.Push()
	s.send("(assert " + Ref(t) + ")")
	r := s.Check()
	s.Pop(1)
	return r
}

// CheckAssumingModel is CheckAssuming that also returns a model for syms when sat.
func (s *Solver) CheckAssumingModel(t *Term, syms []*Term) (Result, map[string]uint64) {
	s.define(t)
	s.Push()
	s.send("(assert " + Ref(t) + ")")
	r := s.Check()
	var m map[string]uint64
	if r == Sat {
		m = s.Model(syms)
	}
	s.Pop(1)
	return r, m
}

// Model fetches values of the given symbols after a sat answer.
func (s *Solver) Model(syms []*Term) map[string]uint64 {
	m := map[string]uint64{}
	var names []string
	for _, sy := range syms {
		if s.defined[sy.ID] {
			names = append(names, sy.Name)
		}
	}
	const chunk = 200
	for i := 0; i < len(names); i += chunk {
		j := i + chunk
		if j > len(names) {
			j = len(names)
		}
		s.send("(get-value (" + strings.Join(names[i:j], " ") + "))")
		txt := s.readSexp()
		parseValues(txt, m)
	}
	return m
}

// readSexp reads one balanced s-expression from the solver output.
func (s *Solver) readSexp() string {
	var sb strings.Builder
	depth := 0
	started := false
	for {
		line, err := s.out.ReadString('\n')
		if err != nil {
			return sb.String()
		}
		for _, ch := range line {
			if ch == '(' {
				depth++
				started = true
			} else if ch == ')' {
				depth--
			}
		}
		sb.WriteString(line)
		if started && depth <= 0 {
			return sb.String()
		}
		if !started && strings.TrimSpace(line) != "" {
			return sb.String()
		}
	}
}

func parseValues(txt string, m map[string]uint64) {
	// tokens: ( ( name value ) ... ) ; value is #x.., #b.., true, false, or (_ bvN w)
	toks := tokenize(txt)
	for i := 0; i+2 < len(toks); i++ {
		if toks[i] != "(" {
			continue
		}
		name := toks[i+1]
		if name == "(" || name == ")" {
			continue
		}
		v := toks[i+2]
		switch {
		case strings.HasPrefix(v, "#x"):
			u, _ := strconv.ParseUint(v[2:], 16, 64)
			m[name] = u
		case strings.HasPrefix(v, "#b"):
			u, _ := strconv.ParseUint(v[2:], 2, 64)
			m[name] = u
		case v == "true":
			m[name] = 1
		case v == "false":
			m[name] = 0
		case v == "(" && i+4 < len(toks) && toks[i+3] == "_" && strings.HasPrefix(toks[i+4], "bv"):
			u, _ := strconv.ParseUint(toks[i+4][2:], 10, 64)
			m[name] = u
		}
	}
}

func tokenize(s string) []string {
	var out []string
	cur := strings.Builder{}
	flush := func() {
		if cur.Len() > 0 {
			out = append(out, cur.String())
			cur.Reset()
		}
	}
	for _, ch := range s {
		switch ch {
		case '(', ')':
			flush()
			out = append(out, string(ch))
		case ' ', '\n', '\t', '\r':
			flush()
		default:
			cur.WriteRune(ch)
		}
	}
	flush()
	return out
}
