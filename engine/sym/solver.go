package sym

import (
	"bufio"
	"fmt"
	"io"
	"os"
	"os/exec"
	"sort"
	"strconv"
	"strings"
	"time"
)

type Result int

const (
	Unsat Result = iota
	Sat
	Unknown
)

func (r Result) String() string { return [...]string{"unsat", "sat", "unknown"}[r] }

// Solver is a persistent SMT solver process driven over stdin/stdout.
// Definitions are global (never popped); assertions follow push/pop.
type Solver struct {
	Kind     string // z3 | z3-new | cvc5
	cmd      *exec.Cmd
	in       io.WriteCloser
	out      *bufio.Reader
	lines    chan string
	Rebuilds int
	defined  map[int32]bool
	depth    int
	frames   [][]*Term // assertion stack mirror (frames[0] = base level)
	// one-shot fallback
	FallbackKinds   []string
	FallbackTimeout int // seconds
	Fallbacks       int
	FeasUnknown     int
	BadModels       int
	FallbackSolved  int
	// statistics
	Queries     int
	Unknowns    int
	Errors      int
	Time        time.Duration
	LastErr     string
	TimeoutMs   int
	QuickMs     int
	FeasMs      int
	Stage2      int
	quickFails  int
	lastTimeout int
	skipQuick   int
	Log         io.Writer
}

func NewSolver(kind string, timeoutMs int) (*Solver, error) {
	s := &Solver{Kind: kind, TimeoutMs: timeoutMs, QuickMs: 250, FeasMs: 4000}
	if err := s.start(); err != nil {
		return nil, err
	}
	return s, nil
}

func (s *Solver) start() error {
	var cmd *exec.Cmd
	switch s.Kind {
	case "z3", "z3-new":
		cmd = exec.Command(s.Kind, "-in", "-smt2")
	case "cvc5":
		cmd = exec.Command("cvc5", "--incremental", "--lang=smt2", "--produce-models", fmt.Sprintf("--tlimit-per=%d", s.TimeoutMs))
	default:
		return fmt.Errorf("unknown solver %q", s.Kind)
	}
	in, err := cmd.StdinPipe()
	if err != nil {
		return err
	}
	out, err := cmd.StdoutPipe()
	if err != nil {
		return err
	}
	cmd.Stderr = nil
	if err := cmd.Start(); err != nil {
		return err
	}
	s.cmd, s.in, s.out = cmd, in, bufio.NewReaderSize(out, 1<<16)
	lines := make(chan string, 1024)
	s.lines = lines
	rd := s.out
	go func() {
		defer close(lines)
		for {
			line, err := rd.ReadString('\n')
			if line != "" {
				lines <- line
			}
			if err != nil {
				return
			}
		}
	}()
	s.defined = map[int32]bool{}
	s.lastTimeout = 0
	s.depth = 0
	s.frames = [][]*Term{nil}
	s.send("(set-option :print-success false)")
	s.send("(set-option :produce-models true)")
	s.send("(set-option :global-declarations true)")
	if s.Kind != "cvc5" {
		s.send(fmt.Sprintf("(set-option :timeout %d)", s.TimeoutMs))
	} else {
		s.send("(set-logic QF_BV)")
	}
	return nil
}

func (s *Solver) Close() {
	if s.cmd != nil {
		s.in.Close()
		s.cmd.Process.Kill()
		s.cmd.Wait()
		s.cmd = nil
	}
}

// Restart kills the process and starts a fresh one (depth 0, nothing defined).
func (s *Solver) Restart() error {
	s.Close()
	return s.start()
}

func (s *Solver) NumDefined() int { return len(s.defined) }

func (s *Solver) send(line string) {
	if s.Log != nil {
		fmt.Fprintln(s.Log, line)
	}
	io.WriteString(s.in, line)
	io.WriteString(s.in, "\n")
}

// define makes sure t (and all its sub-terms) are known to the solver.
func (s *Solver) define(t *Term) {
	if t.Op == OConst || s.defined[t.ID] {
		return
	}
	// iterative post-order to avoid deep recursion on long chains
	type fr struct {
		t *Term
		i int
	}
	stack := []fr{{t, 0}}
	for len(stack) > 0 {
		top := &stack[len(stack)-1]
		kids := [3]*Term{top.t.A, top.t.B, top.t.C}
		pushed := false
		for top.i < 3 {
			k := kids[top.i]
			top.i++
			if k != nil && k.Op != OConst && !s.defined[k.ID] {
				stack = append(stack, fr{k, 0})
				pushed = true
				break
			}
		}
		if pushed {
			continue
		}
		x := top.t
		stack = stack[:len(stack)-1]
		if s.defined[x.ID] {
			continue
		}
		s.defined[x.ID] = true
		if x.Op == OSym {
			s.send(fmt.Sprintf("(declare-const %s %s)", x.Name, sortOf(x.W)))
		} else {
			s.send(fmt.Sprintf("(define-fun t%d () %s %s)", x.ID, sortOf(x.W), Body(x)))
		}
	}
}

func (s *Solver) Depth() int { return s.depth }

func (s *Solver) Push() {
	s.send("(push 1)")
	s.depth++
	s.frames = append(s.frames, nil)
}

func (s *Solver) Pop(n int) {
	if n <= 0 {
		return
	}
	s.send(fmt.Sprintf("(pop %d)", n))
	s.depth -= n
	s.frames = s.frames[:len(s.frames)-n]
}

func (s *Solver) Assert(t *Term) {
	s.define(t)
	s.send("(assert " + Ref(t) + ")")
	s.frames[len(s.frames)-1] = append(s.frames[len(s.frames)-1], t)
}

var errDeadline = fmt.Errorf("solver deadline exceeded")

// rawLine reads one output line, giving up after the hard deadline (the
// solver's own timeout is not always honoured).
func (s *Solver) rawLine() (string, error) { return s.rawLineT(s.TimeoutMs) }

func (s *Solver) rawLineT(timeoutMs int) (string, error) {
	grace := time.Duration(timeoutMs)*time.Millisecond*2 + 3*time.Second
	select {
	case line, ok := <-s.lines:
		if !ok {
			return "", io.EOF
		}
		return line, nil
	case <-time.After(grace):
		if os.Getenv("GOSYM_DEBUG") != "" {
			fmt.Fprintf(os.Stderr, "solver deadline after %v\n", grace)
		}
		return "", errDeadline
	}
}

func (s *Solver) readLineT(timeoutMs int) (string, error) {
	line, err := s.rawLineT(timeoutMs)
	return strings.TrimSpace(line), err
}

// rebuild restarts the solver process and re-creates the assertion stack.
func (s *Solver) rebuild() {
	frames := s.frames
	s.Close()
	if err := s.start(); err != nil {
		s.LastErr = "restart failed: " + err.Error()
		return
	}
	s.Rebuilds++
	for i, fr := range frames {
		if i > 0 {
			s.Push()
		}
		for _, t := range fr {
			s.Assert(t)
		}
	}
}

// Check decides the current assertion stack with a plain incremental
// (check-sat). (An earlier version followed an inconclusive answer with
// (check-sat-using <bit-blasting tactic>) on the same process; z3 4.8.12 was
// observed to return models violating scoped assertions that way, so hard
// queries now go to a fresh stand-alone process instead - see oneShot.)
func (s *Solver) Check() Result {
	t0 := time.Now()
	s.Queries++
	if s.Kind != "cvc5" && s.lastTimeout != s.TimeoutMs {
		s.send(fmt.Sprintf("(set-option :timeout %d)", s.TimeoutMs))
		s.lastTimeout = s.TimeoutMs
	}
	res := s.checkCmd("(check-sat)", s.TimeoutMs)
	if res == Unknown {
		s.Unknowns++
	}
	s.Time += time.Since(t0)
	return res
}

func (s *Solver) checkCmd(cmd string, timeoutMs int) Result {
	s.send(cmd)
	var res Result = Unknown
	sawErr := false
	for {
		line, err := s.readLineT(timeoutMs)
		if err != nil {
			s.LastErr = "solver died: " + err.Error()
			// kill the process and rebuild the stack on a fresh one
			s.Errors++
			s.rebuild()
			return Unknown
		}
		if line == "" {
			continue
		}
		if strings.HasPrefix(line, "(error") {
			s.LastErr = line
			sawErr = true
			continue
		}
		switch line {
		case "sat":
			res = Sat
		case "unsat":
			res = Unsat
		case "unknown", "timeout":
			res = Unknown
		default:
			s.LastErr = "unexpected: " + line
			sawErr = true
			continue
		}
		break
	}
	if sawErr {
		// any error line makes the query inconclusive
		s.Errors++
		res = Unknown
	}
	return res
}

// CheckAssuming checks the stack plus the extra literal, leaving the stack unchanged.
func (s *Solver) CheckAssuming(t *Term) Result {
	r, _ := s.CheckAssumingModel(t, nil)
	return r
}

// CheckFeasible is a quick incremental-only check (no fallback): an unknown
// answer is returned as such and the caller treats the literal as feasible.
func (s *Solver) CheckFeasible(t *Term, syms []*Term) (Result, map[string]uint64) {
	saved := s.TimeoutMs
	s.TimeoutMs = s.QuickMs
	s.Push()
	s.Assert(t)
	r := s.Check()
	var m map[string]uint64
	if r == Sat && syms != nil {
		m = s.Model(syms)
	}
	s.Pop(1)
	s.TimeoutMs = saved
	if r == Unknown {
		s.Unknowns--
		// stand-alone retry (different strategy: full preprocessing + bit-blasting)
		s.Stage2++
		fk := s.Kind
		if len(s.FallbackKinds) > 0 {
			fk = s.FallbackKinds[0]
		}
		r2, m2 := s.oneShotWith(t, syms, []string{fk}, s.FeasMs/1000+1)
		if r2 == Unsat {
			return Unsat, nil
		}
		if r2 == Sat {
			if syms != nil && !s.validModel(m2, t) {
				m2 = nil
			}
			return Sat, m2
		}
		s.FeasUnknown++
		return Unknown, nil
	}
	if r == Sat && m != nil && !s.validModel(m, t) {
		s.BadModels++
		m = nil
	}
	return r, m
}

// validModel checks that m satisfies every assertion on the stack (and extra).
// Models returned after tactic-based checks are not always trustworthy.
func (s *Solver) validModel(m map[string]uint64, extra *Term) bool {
	memo := map[*Term]uint64{}
	for _, fr := range s.frames {
		for _, t := range fr {
			if Eval(t, m, memo) == 0 {
				if s.Log != nil {
					fmt.Fprintf(s.Log, "; invalid model: frame term t%d = %s evaluates to false under %v\n", t.ID, t.String(), m)
				}
				return false
			}
		}
	}
	if extra != nil && Eval(extra, m, memo) == 0 {
		return false
	}
	return true
}

// CheckAssumingModel is CheckAssuming that also returns a model for syms when sat
// (syms == nil: no model wanted). An incremental "unknown" is retried as a
// stand-alone query on fresh solver processes (different strategies apply there).
// Every model is validated by evaluation; an invalid one is replaced through the
// stand-alone path, and a disagreement between solvers is reported as unknown.
func (s *Solver) CheckAssumingModel(t *Term, syms []*Term) (Result, map[string]uint64) {
	s.Push()
	s.Assert(t)
	r := s.Check()
	var m map[string]uint64
	if r == Sat && syms != nil {
		m = s.Model(syms)
	}
	s.Pop(1)
	if r == Sat && syms != nil && !s.validModel(m, t) {
		s.BadModels++
		r2, m2 := s.oneShot(t, syms)
		if s.Log != nil {
			fmt.Fprintf(s.Log, "; ---- bad model (one-shot says %v) model=%v ----\n%s; ---- end ----\n", r2, m, s.queryText(t, syms))
		}
		switch {
		case r2 == Sat && s.validModel(m2, t):
			return Sat, m2
		default:
			s.Unknowns++
			s.LastErr = "model validation failed and stand-alone solvers did not produce a valid model"
			return Unknown, nil
		}
	}
	if r == Unknown && len(s.FallbackKinds) > 0 {
		s.Fallbacks++
		r2, m2 := s.oneShot(t, syms)
		if r2 == Unsat || (r2 == Sat && (syms == nil || s.validModel(m2, t))) {
			s.FallbackSolved++
			s.Unknowns--
			return r2, m2
		}
	}
	return r, m
}

// CheckStack checks the current stack, with the one-shot fallback.
func (s *Solver) CheckStack(syms []*Term) (Result, map[string]uint64) {
	r := s.Check()
	var m map[string]uint64
	if r == Sat && syms != nil {
		m = s.Model(syms)
		if !s.validModel(m, nil) {
			s.BadModels++
			r = Unknown
			m = nil
		}
	}
	if r == Unknown && len(s.FallbackKinds) > 0 {
		s.Fallbacks++
		r2, m2 := s.oneShot(nil, syms)
		if r2 == Sat && syms != nil && !s.validModel(m2, nil) {
			r2 = Unknown
		}
		if r2 != Unknown {
			s.FallbackSolved++
			s.Unknowns--
			return r2, m2
		}
	}
	return r, m
}

// queryText renders the current stack (+ extra) as a stand-alone SMT-LIB2 script.
func (s *Solver) queryText(extra *Term, syms []*Term) string {
	var asserts []*Term
	for _, fr := range s.frames {
		asserts = append(asserts, fr...)
	}
	if extra != nil {
		asserts = append(asserts, extra)
	}
	// cone of definitions, emitted in ID order (children have smaller IDs)
	need := map[int32]*Term{}
	var visit func(t *Term)
	visit = func(t *Term) {
		if t == nil || t.Op == OConst {
			return
		}
		if _, ok := need[t.ID]; ok {
			return
		}
		need[t.ID] = t
		visit(t.A)
		visit(t.B)
		visit(t.C)
	}
	for _, a := range asserts {
		visit(a)
	}
	var wanted []string
	for _, sy := range syms {
		if _, ok := need[sy.ID]; ok {
			wanted = append(wanted, sy.Name)
		}
	}
	ids := make([]int, 0, len(need))
	for id := range need {
		ids = append(ids, int(id))
	}
	sort.Ints(ids)
	var sb strings.Builder
	sb.WriteString("(set-logic QF_BV)\n")
	for _, id := range ids {
		x := need[int32(id)]
		if x.Op == OSym {
			fmt.Fprintf(&sb, "(declare-const %s %s)\n", x.Name, sortOf(x.W))
		} else {
			fmt.Fprintf(&sb, "(define-fun t%d () %s %s)\n", x.ID, sortOf(x.W), Body(x))
		}
	}
	for _, a := range asserts {
		sb.WriteString("(assert " + Ref(a) + ")\n")
	}
	sb.WriteString("(check-sat)\n")
	if len(wanted) > 0 {
		sb.WriteString("(get-value (" + strings.Join(wanted, " ") + "))\n")
	}
	return sb.String()
}

func (s *Solver) oneShot(extra *Term, syms []*Term) (Result, map[string]uint64) {
	to := s.FallbackTimeout
	if to <= 0 {
		to = 60
	}
	return s.oneShotWith(extra, syms, s.FallbackKinds, to)
}

func (s *Solver) oneShotWith(extra *Term, syms []*Term, kinds []string, to int) (Result, map[string]uint64) {
	t0 := time.Now()
	defer func() { s.Time += time.Since(t0) }()
	text := s.queryText(extra, syms)
	for _, kind := range kinds {
		var cmd *exec.Cmd
		switch kind {
		case "z3", "z3-new":
			cmd = exec.Command(kind, "-in", "-smt2", fmt.Sprintf("-T:%d", to))
		case "cvc5":
			cmd = exec.Command("cvc5", "--lang=smt2", "--produce-models", fmt.Sprintf("--tlimit=%d", to*1000))
		default:
			continue
		}
		cmd.Stdin = strings.NewReader(text)
		out, _ := cmd.Output()
		txt := string(out)
		first := strings.TrimSpace(strings.SplitN(txt, "\n", 2)[0])
		switch first {
		case "unsat":
			return Unsat, nil
		case "sat":
			if strings.Contains(txt, "(error") {
				continue
			}
			m := map[string]uint64{}
			if i := strings.Index(txt, "\n"); i >= 0 {
				parseValues(txt[i+1:], m)
			}
			return Sat, m
		}
	}
	if s.Log != nil {
		fmt.Fprintf(s.Log, "; ---- one-shot failed ----\n%s; ---- end ----\n", text)
	}
	return Unknown, nil
}

// Model fetches values of the given symbols after a sat answer.
func (s *Solver) Model(syms []*Term) map[string]uint64 {
	m := map[string]uint64{}
	var names []string
	for _, sy := range syms {
		if s.defined[sy.ID] {
			names = append(names, sy.Name)
		}
	}
	const chunk = 200
	for i := 0; i < len(names); i += chunk {
		j := i + chunk
		if j > len(names) {
			j = len(names)
		}
		s.send("(get-value (" + strings.Join(names[i:j], " ") + "))")
		txt := s.readSexp()
		parseValues(txt, m)
	}
	return m
}

// readSexp reads one balanced s-expression from the solver output.
func (s *Solver) readSexp() string {
	var sb strings.Builder
	depth := 0
	started := false
	for {
		line, err := s.rawLine()
		if err != nil {
			return sb.String()
		}
		for _, ch := range line {
			if ch == '(' {
				depth++
				started = true
			} else if ch == ')' {
				depth--
			}
		}
		sb.WriteString(line)
		if started && depth <= 0 {
			return sb.String()
		}
		if !started && strings.TrimSpace(line) != "" {
			return sb.String()
		}
	}
}

func parseValues(txt string, m map[string]uint64) {
	// tokens: ( ( name value ) ... ) ; value is #x.., #b.., true, false, or (_ bvN w)
	toks := tokenize(txt)
	for i := 0; i+2 < len(toks); i++ {
		if toks[i] != "(" {
			continue
		}
		name := toks[i+1]
		if name == "(" || name == ")" {
			continue
		}
		v := toks[i+2]
		switch {
		case strings.HasPrefix(v, "#x"):
			u, _ := strconv.ParseUint(v[2:], 16, 64)
			m[name] = u
		case strings.HasPrefix(v, "#b"):
			u, _ := strconv.ParseUint(v[2:], 2, 64)
			m[name] = u
		case v == "true":
			m[name] = 1
		case v == "false":
			m[name] = 0
		case v == "(" && i+4 < len(toks) && toks[i+3] == "_" && strings.HasPrefix(toks[i+4], "bv"):
			u, _ := strconv.ParseUint(toks[i+4][2:], 10, 64)
			m[name] = u
		}
	}
}

func tokenize(s string) []string {
	var out []string
	cur := strings.Builder{}
	flush := func() {
		if cur.Len() > 0 {
			out = append(out, cur.String())
			cur.Reset()
		}
	}
	for _, ch := range s {
		switch ch {
		case '(', ')':
			flush()
			out = append(out, string(ch))
		case ' ', '\n', '\t', '\r':
			flush()
		default:
			cur.WriteRune(ch)
		}
	}
	flush()
	return out
}
