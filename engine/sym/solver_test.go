package sym

import (
	"testing"
	"time"
)

func TestDeadline(t *testing.T) {
	s, err := NewSolver("z3-new", 500)
	if err != nil {
		t.Fatal(err)
	}
	defer s.Close()
	c := NewCtx()
	// a hard query: x*y == const with 64-bit symbolic multiplication
	x, y := c.Sym("x", 64), c.Sym("y", 64)
	q := c.And(c.Eq(c.Bin(OMul, x, y), c.Const(0x7fffffffffffffe7, 64)),
		c.And(c.Ult(c.Const(1, 64), x), c.Ult(c.Const(1, 64), y)))
	q = c.And(q, c.And(c.Ult(x, c.Const(1<<32, 64)), c.Ult(y, c.Const(1<<32, 64))))
	t0 := time.Now()
	r, _ := s.CheckFeasible(q, nil)
	t.Logf("result %v after %v rebuilds=%d", r, time.Since(t0), s.Rebuilds)
	r2 := s.CheckAssuming(c.Eq(x, c.Const(5, 64)))
	t.Logf("second %v", r2)
	if r2 != Sat {
		t.Fatal("solver unusable after deadline")
	}
}
