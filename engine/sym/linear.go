package sym

import "sort"

// Linear normal forms over (_ BitVec w): k + Σ c_i·a_i (mod 2^w), atoms a_i are
// arbitrary non-linear terms. Add/Sub/Neg/Mul-by-constant/Shl-by-constant are
// rebuilt canonically from this form so that syntactically different but equal
// linear expressions (e.g. a rolling checksum and the same checksum computed
// from scratch) become the same hash-consed term, and equalities are simplified.

type linAtom struct {
	t *Term
	c uint64
}

type lin struct {
	k     uint64
	atoms []linAtom // sorted by t.ID, c != 0 (mod 2^w)
}

func (c *Ctx) linOf(t *Term) *lin {
	if t.Op == OConst {
		return &lin{k: t.K}
	}
	if l, ok := c.linMemo[t.ID]; ok {
		return l
	}
	var l *lin
	w := t.W
	switch t.Op {
	case OAdd:
		l = linAdd(c.linOf(t.A), c.linOf(t.B), 1, w)
	case OSub:
		l = linAdd(c.linOf(t.A), c.linOf(t.B), ^uint64(0), w)
	case ONeg:
		l = linScale(c.linOf(t.A), ^uint64(0), w)
	case OMul:
		switch {
		case t.B.Op == OConst:
			l = linScale(c.linOf(t.A), t.B.K, w)
		case t.A.Op == OConst:
			l = linScale(c.linOf(t.B), t.A.K, w)
		}
	case OShl:
		if t.B.Op == OConst && t.B.K < uint64(w) {
			l = linScale(c.linOf(t.A), uint64(1)<<t.B.K, w)
		}
	}
	if l == nil {
		l = &lin{atoms: []linAtom{{t, 1}}}
	}
	c.linMemo[t.ID] = l
	return l
}

// linAdd returns a + s·b.
func linAdd(a, b *lin, s uint64, w uint8) *lin {
	m := mask(w)
	out := &lin{k: (a.k + s*b.k) & m}
	i, j := 0, 0
	for i < len(a.atoms) || j < len(b.atoms) {
		switch {
		case j >= len(b.atoms) || (i < len(a.atoms) && a.atoms[i].t.ID < b.atoms[j].t.ID):
			out.atoms = append(out.atoms, a.atoms[i])
			i++
		case i >= len(a.atoms) || b.atoms[j].t.ID < a.atoms[i].t.ID:
			if cc := (s * b.atoms[j].c) & m; cc != 0 {
				out.atoms = append(out.atoms, linAtom{b.atoms[j].t, cc})
			}
			j++
		default:
			if cc := (a.atoms[i].c + s*b.atoms[j].c) & m; cc != 0 {
				out.atoms = append(out.atoms, linAtom{a.atoms[i].t, cc})
			}
			i++
			j++
		}
	}
	return out
}

func linScale(a *lin, s uint64, w uint8) *lin {
	m := mask(w)
	out := &lin{k: (a.k * s) & m}
	for _, at := range a.atoms {
		if cc := (at.c * s) & m; cc != 0 {
			out.atoms = append(out.atoms, linAtom{at.t, cc})
		}
	}
	return out
}

// sumAtoms builds Σ c_i·a_i with mk only (no further simplification).
func (c *Ctx) sumAtoms(atoms []linAtom, w uint8) *Term {
	var acc *Term
	for _, at := range atoms {
		piece := at.t
		if at.c != 1 {
			piece = c.mk(OMul, w, at.t, c.Const(at.c, w), nil, 0, "")
		}
		if acc == nil {
			acc = piece
		} else {
			acc = c.mk(OAdd, w, acc, piece, nil, 0, "")
		}
	}
	return acc
}

// fromLin builds the canonical term of a linear form.
func (c *Ctx) fromLin(l *lin, w uint8) *Term {
	if len(l.atoms) == 0 {
		return c.Const(l.k, w)
	}
	m := mask(w)
	half := uint64(1) << (w - 1)
	var pos, neg []linAtom
	for _, at := range l.atoms {
		if at.c <= half {
			pos = append(pos, at)
		} else {
			neg = append(neg, linAtom{at.t, (-at.c) & m})
		}
	}
	var t *Term
	switch {
	case len(neg) == 0:
		t = c.sumAtoms(pos, w)
	case len(pos) == 0:
		t = c.mk(ONeg, w, c.sumAtoms(neg, w), nil, nil, 0, "")
	default:
		t = c.mk(OSub, w, c.sumAtoms(pos, w), c.sumAtoms(neg, w), nil, 0, "")
	}
	if l.k != 0 {
		t = c.mk(OAdd, w, t, c.Const(l.k, w), nil, 0, "")
	}
	if t.Op != OConst {
		c.linMemo[t.ID] = l
	}
	return t
}

func isArith(t *Term) bool {
	switch t.Op {
	case OAdd, OSub, ONeg:
		return true
	case OMul:
		return t.A.Op == OConst || t.B.Op == OConst
	case OShl:
		return t.B.Op == OConst
	}
	return false
}

// modInverse of an odd number modulo 2^64 (Newton iteration).
func modInverse(a uint64) uint64 {
	x := a
	for i := 0; i < 6; i++ {
		x *= 2 - a*x
	}
	return x
}

// linEq normalises a == b; ok=false means "no change, use the structural rules".
func (c *Ctx) linEq(a, b *Term) (lhs, rhs *Term, ok bool) {
	w := a.W
	m := mask(w)
	d := linAdd(c.linOf(a), c.linOf(b), ^uint64(0), w) // a - b
	if len(d.atoms) == 0 {
		if d.k == 0 {
			return c.True, c.True, true
		}
		return c.True, c.False, true
	}
	if len(d.atoms) == 1 && d.atoms[0].c&1 == 1 {
		inv := modInverse(d.atoms[0].c) & m
		return d.atoms[0].t, c.Const(((-d.k)&m)*inv, w), true
	}
	half := uint64(1) << (w - 1)
	var pos, neg []linAtom
	for _, at := range d.atoms {
		if at.c <= half {
			pos = append(pos, at)
		} else {
			neg = append(neg, linAtom{at.t, (-at.c) & m})
		}
	}
	k := (-d.k) & m // pos = neg + k
	if len(pos) == 0 || (len(neg) > 0 && neg[0].t.ID < pos[0].t.ID) {
		pos, neg = neg, pos
		k = (-k) & m
	}
	sort.Slice(pos, func(i, j int) bool { return pos[i].t.ID < pos[j].t.ID })
	lhs = c.sumAtoms(pos, w)
	if len(neg) == 0 {
		return lhs, c.Const(k, w), true
	}
	rhs = c.sumAtoms(neg, w)
	if k != 0 {
		rhs = c.mk(OAdd, w, rhs, c.Const(k, w), nil, 0, "")
	}
	return lhs, rhs, true
}
