// Package sym implements hash-consed bit-vector / boolean terms with an
// eager simplifier, a concrete evaluator and an SMT-LIB2 printer.
package sym

import (
	"fmt"
	"math/bits"
	"strings"
)

type Op uint8

const (
	OConst Op = iota
	OSym
	// boolean
	ONot
	OAnd
	OOr
	OEq  // bv x bv -> bool, or bool x bool -> bool
	OUlt // bv
	OUle
	OSlt
	OSle
	OIte // c ? a : b (bv or bool)
	// bit-vector
	OAdd
	OSub
	OMul
	OUDiv
	OURem
	OSDiv
	OSRem
	OBAnd
	OBOr
	OBXor
	OShl
	OLShr
	OAShr
	OBNot
	ONeg
	OZExt    // K = unused, W target width
	OSExt    // W target width
	OExtract // K = lo ; W = result width
	OConcat  // A high, B low
)

var opNames = [...]string{
	OConst: "const", OSym: "sym", ONot: "not", OAnd: "and", OOr: "or", OEq: "=",
	OUlt: "bvult", OUle: "bvule", OSlt: "bvslt", OSle: "bvsle", OIte: "ite",
	OAdd: "bvadd", OSub: "bvsub", OMul: "bvmul", OUDiv: "bvudiv", OURem: "bvurem",
	OSDiv: "bvsdiv", OSRem: "bvsrem", OBAnd: "bvand", OBOr: "bvor", OBXor: "bvxor",
	OShl: "bvshl", OLShr: "bvlshr", OAShr: "bvashr", OBNot: "bvnot", ONeg: "bvneg",
	OZExt: "zext", OSExt: "sext", OExtract: "extract", OConcat: "concat",
}

// Term is an immutable hash-consed node. W == 0 means sort Bool, otherwise
// (_ BitVec W) with 1 <= W <= 64.
type Term struct {
	ID      int32
	Op      Op
	W       uint8
	A, B, C *Term
	K       uint64 // constant value / extract low bit / symbol index
	Name    string // symbols only
}

func (t *Term) IsConst() bool { return t.Op == OConst }
func (t *Term) IsBool() bool  { return t.W == 0 }

type key struct {
	op      Op
	w       uint8
	a, b, c int32
	k       uint64
	name    string
}

// Ctx owns a term table. Not safe for concurrent use.
type exKey struct {
	id    int32
	lo, w uint8
}

type Ctx struct {
	linMemo map[int32]*lin
	exMemo  map[exKey]*Term
	tab     map[key]*Term
	Terms   []*Term
	Syms    []*Term
	True    *Term
	False   *Term
}

func NewCtx() *Ctx {
	c := &Ctx{tab: map[key]*Term{}, exMemo: map[exKey]*Term{}, linMemo: map[int32]*lin{}}
	c.False = c.mk(OConst, 0, nil, nil, nil, 0, "")
	c.True = c.mk(OConst, 0, nil, nil, nil, 1, "")
	return c
}

func id(t *Term) int32 {
	if t == nil {
		return -1
	}
	return t.ID
}

func (c *Ctx) mk(op Op, w uint8, a, b, cc *Term, k uint64, name string) *Term {
	ky := key{op, w, id(a), id(b), id(cc), k, name}
	if t, ok := c.tab[ky]; ok {
		return t
	}
	t := &Term{ID: int32(len(c.Terms)), Op: op, W: w, A: a, B: b, C: cc, K: k, Name: name}
	c.tab[ky] = t
	c.Terms = append(c.Terms, t)
	if op == OSym {
		c.Syms = append(c.Syms, t)
	}
	return t
}

func mask(w uint8) uint64 {
	if w >= 64 {
		return ^uint64(0)
	}
	return (uint64(1) << w) - 1
}

func sext(v uint64, w uint8) int64 {
	if w >= 64 {
		return int64(v)
	}
	sh := 64 - uint(w)
	return int64(v<<sh) >> sh
}

// Const makes a bit-vector constant of width w.
func (c *Ctx) Const(v uint64, w uint8) *Term {
	if w == 0 {
		panic("Const with width 0")
	}
	return c.mk(OConst, w, nil, nil, nil, v&mask(w), "")
}

func (c *Ctx) Bool(b bool) *Term {
	if b {
		return c.True
	}
	return c.False
}

// Sym makes (or returns) the symbol with the given name and width (0=Bool).
func (c *Ctx) Sym(name string, w uint8) *Term {
	return c.mk(OSym, w, nil, nil, nil, 0, name)
}

func (c *Ctx) Not(a *Term) *Term {
	if a.W != 0 {
		panic("Not on bv")
	}
	if a.Op == OConst {
		return c.Bool(a.K == 0)
	}
	if a.Op == ONot {
		return a.A
	}
	return c.mk(ONot, 0, a, nil, nil, 0, "")
}

func (c *Ctx) And(a, b *Term) *Term {
	if a.Op == OConst {
		if a.K == 0 {
			return c.False
		}
		return b
	}
	if b.Op == OConst {
		if b.K == 0 {
			return c.False
		}
		return a
	}
	if a == b {
		return a
	}
	if a.ID > b.ID {
		a, b = b, a
	}
	return c.mk(OAnd, 0, a, b, nil, 0, "")
}

func (c *Ctx) Or(a, b *Term) *Term {
	if a.Op == OConst {
		if a.K != 0 {
			return c.True
		}
		return b
	}
	if b.Op == OConst {
		if b.K != 0 {
			return c.True
		}
		return a
	}
	if a == b {
		return a
	}
	if a.ID > b.ID {
		a, b = b, a
	}
	return c.mk(OOr, 0, a, b, nil, 0, "")
}

func (c *Ctx) Ite(cond, a, b *Term) *Term {
	if cond.Op == OConst {
		if cond.K != 0 {
			return a
		}
		return b
	}
	if a == b {
		return a
	}
	if a.W != b.W {
		panic("Ite width mismatch")
	}
	if a.W == 0 {
		// boolean ite
		if a.Op == OConst && b.Op == OConst {
			if a.K != 0 {
				return cond // ite(c,true,false)
			}
			return c.Not(cond)
		}
	}
	return c.mk(OIte, a.W, a, b, cond, 0, "")
}

// Eq on two terms of identical sort.
func (c *Ctx) Eq(a, b *Term) *Term {
	if a.W != b.W {
		panic(fmt.Sprintf("Eq width mismatch %d vs %d", a.W, b.W))
	}
	if a == b {
		return c.True
	}
	if a.Op == OConst && b.Op == OConst {
		return c.Bool(a.K == b.K)
	}
	if a.W == 0 {
		if a.Op == OConst {
			if a.K != 0 {
				return b
			}
			return c.Not(b)
		}
		if b.Op == OConst {
			if b.K != 0 {
				return a
			}
			return c.Not(a)
		}
	}
	if a.W != 0 && (isArith(a) || isArith(b)) {
		if l, r, ok := c.linEq(a, b); ok {
			if l.W == 0 {
				return r // constant outcome
			}
			return c.eqStruct(l, r)
		}
	}
	return c.eqStruct(a, b)
}

// eqStruct applies the structural equality rules (no linear normalisation).
func (c *Ctx) eqStruct(a, b *Term) *Term {
	if a == b {
		return c.True
	}
	if a.Op == OConst && b.Op == OConst {
		return c.Bool(a.K == b.K)
	}
	// normalise: constant on the right
	if a.Op == OConst {
		a, b = b, a
	}
	if b.Op == OConst {
		// eq(zext(x), k): if k fits in x's width compare narrow else false
		if a.Op == OZExt {
			if b.K&^mask(a.A.W) != 0 {
				return c.False
			}
			return c.Eq(a.A, c.Const(b.K, a.A.W))
		}
		// eq(ite(c, k1, k2), k)
		if a.Op == OIte && a.A.Op == OConst && a.B.Op == OConst {
			ta, tb := a.A.K == b.K, a.B.K == b.K
			switch {
			case ta && tb:
				return c.True
			case ta:
				return a.C
			case tb:
				return c.Not(a.C)
			default:
				return c.False
			}
		}
	}
	if a.Op == OZExt && b.Op == OZExt && a.A.W == b.A.W {
		return c.Eq(a.A, b.A)
	}
	if a.Op == OConcat {
		lw := a.B.W
		if b.Op == OConcat && b.B.W == lw {
			return c.And(c.Eq(a.A, b.A), c.Eq(a.B, b.B))
		}
		if b.Op == OConst {
			return c.And(c.Eq(a.A, c.Const(b.K>>lw, a.A.W)), c.Eq(a.B, c.Const(b.K, lw)))
		}
	}
	if a.ID > b.ID && b.Op != OConst {
		a, b = b, a
	}
	return c.mk(OEq, 0, a, b, nil, 0, "")
}

func (c *Ctx) cmp(op Op, a, b *Term) *Term {
	if a.W != b.W || a.W == 0 {
		panic("cmp width mismatch")
	}
	if a.Op == OConst && b.Op == OConst {
		var r bool
		switch op {
		case OUlt:
			r = a.K < b.K
		case OUle:
			r = a.K <= b.K
		case OSlt:
			r = sext(a.K, a.W) < sext(b.K, b.W)
		case OSle:
			r = sext(a.K, a.W) <= sext(b.K, b.W)
		}
		return c.Bool(r)
	}
	if a == b {
		return c.Bool(op == OUle || op == OSle)
	}
	// narrow comparisons of zero-extended values
	if a.Op == OZExt && b.Op == OZExt && a.A.W == b.A.W {
		nop := op
		if op == OSlt {
			nop = OUlt
		} else if op == OSle {
			nop = OUle
		}
		return c.cmp(nop, a.A, b.A)
	}
	if a.Op == OZExt && b.Op == OConst && a.A.W < a.W {
		// zext value is in [0, 2^n)
		n := a.A.W
		bv := sext(b.K, b.W)
		signed := op == OSlt || op == OSle
		if signed && bv < 0 {
			return c.False
		}
		if (signed || true) && b.K > mask(n) && (!signed || bv >= 0) {
			// constant above the whole range
			return c.True
		}
		nop := op
		if op == OSlt {
			nop = OUlt
		} else if op == OSle {
			nop = OUle
		}
		return c.cmp(nop, a.A, c.Const(b.K, n))
	}
	if b.Op == OZExt && a.Op == OConst && b.A.W < b.W {
		n := b.A.W
		av := sext(a.K, a.W)
		signed := op == OSlt || op == OSle
		if signed && av < 0 {
			return c.True
		}
		if a.K > mask(n) {
			return c.False
		}
		nop := op
		if op == OSlt {
			nop = OUlt
		} else if op == OSle {
			nop = OUle
		}
		return c.cmp(nop, c.Const(a.K, n), b.A)
	}
	if op == OUlt && b.Op == OConst && b.K == 0 {
		return c.False
	}
	if op == OUle && a.Op == OConst && a.K == 0 {
		return c.True
	}
	return c.mk(op, 0, a, b, nil, 0, "")
}

func (c *Ctx) Ult(a, b *Term) *Term { return c.cmp(OUlt, a, b) }
func (c *Ctx) Ule(a, b *Term) *Term { return c.cmp(OUle, a, b) }
func (c *Ctx) Slt(a, b *Term) *Term { return c.cmp(OSlt, a, b) }
func (c *Ctx) Sle(a, b *Term) *Term { return c.cmp(OSle, a, b) }

func foldBin(op Op, x, y uint64, w uint8) (uint64, bool) {
	m := mask(w)
	switch op {
	case OAdd:
		return (x + y) & m, true
	case OSub:
		return (x - y) & m, true
	case OMul:
		return (x * y) & m, true
	case OUDiv:
		if y == 0 {
			return m, true // SMT-LIB semantics
		}
		return (x / y) & m, true
	case OURem:
		if y == 0 {
			return x, true
		}
		return (x % y) & m, true
	case OSDiv:
		sx, sy := sext(x, w), sext(y, w)
		if sy == 0 {
			if sx >= 0 {
				return m, true
			}
			return 1, true
		}
		if sy == -1 {
			return uint64(-sx) & m, true
		}
		return uint64(sx/sy) & m, true
	case OSRem:
		sx, sy := sext(x, w), sext(y, w)
		if sy == 0 {
			return x, true
		}
		if sy == -1 {
			return 0, true
		}
		return uint64(sx%sy) & m, true
	case OBAnd:
		return x & y, true
	case OBOr:
		return x | y, true
	case OBXor:
		return x ^ y, true
	case OShl:
		if y >= uint64(w) {
			return 0, true
		}
		return (x << y) & m, true
	case OLShr:
		if y >= uint64(w) {
			return 0, true
		}
		return x >> y, true
	case OAShr:
		sx := sext(x, w)
		if y >= uint64(w) {
			if sx < 0 {
				return m, true
			}
			return 0, true
		}
		return uint64(sx>>y) & m, true
	}
	return 0, false
}

// Bin builds a binary bit-vector operation with simplification.
func (c *Ctx) Bin(op Op, a, b *Term) *Term {
	if a.W != b.W || a.W == 0 {
		panic(fmt.Sprintf("Bin %s width mismatch %d %d", opNames[op], a.W, b.W))
	}
	w := a.W
	if a.Op == OConst && b.Op == OConst {
		if v, ok := foldBin(op, a.K, b.K, w); ok {
			return c.Const(v, w)
		}
	}
	switch op {
	case OAdd:
		if t := c.addAsConcat(a, b); t != nil {
			return t
		}
		if t := c.addAsConcat(b, a); t != nil {
			return t
		}
		return c.fromLin(linAdd(c.linOf(a), c.linOf(b), 1, w), w)
	case OSub:
		return c.fromLin(linAdd(c.linOf(a), c.linOf(b), ^uint64(0), w), w)
	case OMul:
		if b.Op == OConst {
			return c.fromLin(linScale(c.linOf(a), b.K, w), w)
		}
		if a.Op == OConst {
			return c.fromLin(linScale(c.linOf(b), a.K, w), w)
		}
	case OShl:
		if b.Op == OConst && b.K < uint64(w) {
			return c.fromLin(linScale(c.linOf(a), uint64(1)<<b.K, w), w)
		}
	}
	switch op {
	case OAdd:
		if a.Op == OConst {
			a, b = b, a
		}
		if t := c.addAsConcat(a, b); t != nil {
			return t
		}
		if t := c.addAsConcat(b, a); t != nil {
			return t
		}
		if b.Op == OConst {
			if b.K == 0 {
				return a
			}
			// (x + k1) + k2
			if a.Op == OAdd && a.B.Op == OConst {
				return c.Bin(OAdd, a.A, c.Const(a.B.K+b.K, w))
			}
			if a.Op == OSub && a.B.Op == OConst {
				return c.Bin(OAdd, a.A, c.Const(b.K-a.B.K, w))
			}
		}
	case OSub:
		if b.Op == OConst {
			if b.K == 0 {
				return a
			}
			return c.Bin(OAdd, a, c.Const(-b.K, w))
		}
		if a == b {
			return c.Const(0, w)
		}
	case OMul:
		if a.Op == OConst {
			a, b = b, a
		}
		if b.Op == OConst {
			if b.K == 0 {
				return b
			}
			if b.K == 1 {
				return a
			}
		}
	case OBAnd:
		if a.Op == OConst {
			a, b = b, a
		}
		if b.Op == OConst {
			if b.K == 0 {
				return b
			}
			if b.K == mask(w) {
				return a
			}
			// and(zext(x), k) where k covers x's bits entirely
			if a.Op == OZExt && b.K&mask(a.A.W) == mask(a.A.W) {
				return a
			}
			// x & (2^n - 1) == zext(extract(x, n-1, 0))
			if b.K&(b.K+1) == 0 {
				n := uint8(bits.Len64(b.K))
				return c.ZExt(c.Extract(a, 0, n), w)
			}
		}
		if a == b {
			return a
		}
	case OBOr:
		if a.Op == OConst {
			a, b = b, a
		}
		if b.Op == OConst {
			if b.K == 0 {
				return a
			}
			if b.K == mask(w) {
				return b
			}
		}
		if a == b {
			return a
		}
	case OBXor:
		if a.Op == OConst {
			a, b = b, a
		}
		if b.Op == OConst && b.K == 0 {
			return a
		}
		if a == b {
			return c.Const(0, w)
		}
	case OShl, OLShr, OAShr:
		if b.Op == OConst {
			if b.K == 0 {
				return a
			}
			if b.K >= uint64(w) && op != OAShr {
				return c.Const(0, w)
			}
			if op == OLShr && a.Op == OZExt && b.K >= uint64(a.A.W) {
				return c.Const(0, w)
			}
		}
		if a.Op == OConst && a.K == 0 {
			return a
		}
	case OUDiv:
		if b.Op == OConst && b.K == 1 {
			return a
		}
	case OURem:
		if b.Op == OConst {
			if b.K == 1 {
				return c.Const(0, w)
			}
			// x % 2^n == x & (2^n-1)
			if b.K != 0 && b.K&(b.K-1) == 0 {
				return c.Bin(OBAnd, a, c.Const(b.K-1, w))
			}
			// zext(x) % k where k > max(x)
			if a.Op == OZExt && b.K > mask(a.A.W) {
				return a
			}
		}
	case OSDiv:
		if b.Op == OConst && b.K == 1 {
			return a
		}
	}
	return c.mk(op, w, a, b, nil, 0, "")
}

// addAsConcat recognises lo + hi*2^k with non-overlapping bits: lo = zext(x), |x| <= k,
// hi = zext(y)*2^k (or shl), |y|+k <= w, and returns zext(concat(y, zext_k(x))).
func (c *Ctx) addAsConcat(lo, hi *Term) *Term {
	w := lo.W
	var x *Term
	switch {
	case lo.Op == OZExt:
		x = lo.A
	default:
		return nil
	}
	var y *Term
	var k uint64
	switch {
	case hi.Op == OMul && hi.B.Op == OConst && hi.B.K != 0 && hi.B.K&(hi.B.K-1) == 0 && hi.A.Op == OZExt:
		y = hi.A.A
		k = uint64(bits.TrailingZeros64(hi.B.K))
	case hi.Op == OShl && hi.B.Op == OConst && hi.A.Op == OZExt:
		y = hi.A.A
		k = hi.B.K
	default:
		return nil
	}
	if uint64(x.W) > k || uint64(y.W)+k > uint64(w) || k == 0 {
		return nil
	}
	return c.ZExt(c.Concat(y, c.ZExt(x, uint8(k))), w)
}

func (c *Ctx) BNot(a *Term) *Term {
	if a.Op == OConst {
		return c.Const(^a.K, a.W)
	}
	if a.Op == OBNot {
		return a.A
	}
	return c.mk(OBNot, a.W, a, nil, nil, 0, "")
}

func (c *Ctx) Neg(a *Term) *Term {
	if a.Op == OConst {
		return c.Const(-a.K, a.W)
	}
	return c.fromLin(linScale(c.linOf(a), ^uint64(0), a.W), a.W)
}

func (c *Ctx) ZExt(a *Term, w uint8) *Term {
	if a.W == w {
		return a
	}
	if a.W > w || a.W == 0 {
		panic("ZExt narrowing")
	}
	if a.Op == OConst {
		return c.Const(a.K, w)
	}
	if a.Op == OZExt {
		return c.ZExt(a.A, w)
	}
	return c.mk(OZExt, w, a, nil, nil, 0, "")
}

func (c *Ctx) SExt(a *Term, w uint8) *Term {
	if a.W == w {
		return a
	}
	if a.W > w || a.W == 0 {
		panic("SExt narrowing")
	}
	if a.Op == OConst {
		return c.Const(uint64(sext(a.K, a.W)), w)
	}
	if a.Op == OZExt {
		// top bit is zero: sign extension = zero extension
		return c.ZExt(a.A, w)
	}
	return c.mk(OSExt, w, a, nil, nil, 0, "")
}

// Extract bits [lo, lo+w) of a.
func (c *Ctx) Extract(a *Term, lo uint8, w uint8) *Term {
	if lo == 0 && w == a.W {
		return a
	}
	if a.Op != OConst {
		k := exKey{a.ID, lo, w}
		if r, ok := c.exMemo[k]; ok {
			return r
		}
		r := c.extract(a, lo, w)
		c.exMemo[k] = r
		return r
	}
	return c.extract(a, lo, w)
}

func (c *Ctx) extract(a *Term, lo uint8, w uint8) *Term {
	if uint(lo)+uint(w) > uint(a.W) || w == 0 {
		panic("Extract out of range")
	}
	if a.Op == OConst {
		return c.Const(a.K>>lo, w)
	}
	if (a.Op == OZExt || a.Op == OSExt) && lo == 0 {
		if w == a.A.W {
			return a.A
		}
		if w < a.A.W {
			return c.Extract(a.A, 0, w)
		}
		if a.Op == OZExt {
			return c.ZExt(a.A, w)
		}
		return c.SExt(a.A, w)
	}
	if a.Op == OZExt && lo >= a.A.W {
		return c.Const(0, w)
	}
	if a.Op == OExtract {
		return c.Extract(a.A, uint8(a.K)+lo, w)
	}
	if a.Op == OConcat {
		lw := a.B.W
		if lo+w <= lw {
			return c.Extract(a.B, lo, w)
		}
		if lo >= lw {
			return c.Extract(a.A, lo-lw, w)
		}
	}
	// the low w bits of these operations depend only on the low w bits of the operands
	if lo == 0 {
		switch a.Op {
		case OAdd, OSub, OMul, OBAnd, OBOr, OBXor:
			return c.Bin(a.Op, c.Extract(a.A, 0, w), c.Extract(a.B, 0, w))
		case ONeg:
			return c.Neg(c.Extract(a.A, 0, w))
		case OBNot:
			return c.BNot(c.Extract(a.A, 0, w))
		case OShl:
			if a.B.Op == OConst {
				if a.B.K >= uint64(w) {
					return c.Const(0, w)
				}
				return c.Bin(OShl, c.Extract(a.A, 0, w), c.Const(a.B.K, w))
			}
		case OIte:
			return c.Ite(a.C, c.Extract(a.A, 0, w), c.Extract(a.B, 0, w))
		}
	}
	return c.mk(OExtract, w, a, nil, nil, uint64(lo), "")
}

func isNarrowable(t *Term, w uint8) bool {
	switch t.Op {
	case OConst:
		return true
	case OZExt, OSExt:
		return true
	}
	return false
}

func (c *Ctx) Concat(hi, lo *Term) *Term {
	w := hi.W + lo.W
	if w > 64 {
		panic("Concat too wide")
	}
	if hi.Op == OConst && lo.Op == OConst {
		return c.Const(hi.K<<lo.W|lo.K, w)
	}
	if hi.Op == OConst && hi.K == 0 {
		return c.ZExt(lo, w)
	}
	// re-assembly of adjacent slices of the same term
	if hi.Op == OExtract && lo.Op == OExtract && hi.A == lo.A && hi.K == lo.K+uint64(lo.W) {
		return c.Extract(hi.A, uint8(lo.K), w)
	}
	if hi.Op == OExtract && hi.K == uint64(lo.W) && hi.A == lo {
		// concat(extract(x, |lo|..), lo) cannot happen (lo would be wider); skip
	}
	if hi.Op == OExtract && lo == hi.A && false {
		return lo
	}
	return c.mk(OConcat, w, hi, lo, nil, 0, "")
}

// BoolToBV gives ite(b, 1, 0) of width w.
func (c *Ctx) BoolToBV(b *Term, w uint8) *Term {
	return c.Ite(b, c.Const(1, w), c.Const(0, w))
}

// Eval computes the value of t under the assignment m (symbol name -> value).
// Missing symbols evaluate to 0.
func Eval(t *Term, m map[string]uint64, memo map[*Term]uint64) uint64 {
	if t.Op == OConst {
		return t.K
	}
	if v, ok := memo[t]; ok {
		return v
	}
	var r uint64
	switch t.Op {
	case OSym:
		r = m[t.Name] & maskOrBool(t.W)
	case ONot:
		r = 1 ^ Eval(t.A, m, memo)
	case OAnd:
		r = Eval(t.A, m, memo) & Eval(t.B, m, memo)
	case OOr:
		r = Eval(t.A, m, memo) | Eval(t.B, m, memo)
	case OEq:
		r = b2u(Eval(t.A, m, memo) == Eval(t.B, m, memo))
	case OUlt:
		r = b2u(Eval(t.A, m, memo) < Eval(t.B, m, memo))
	case OUle:
		r = b2u(Eval(t.A, m, memo) <= Eval(t.B, m, memo))
	case OSlt:
		r = b2u(sext(Eval(t.A, m, memo), t.A.W) < sext(Eval(t.B, m, memo), t.B.W))
	case OSle:
		r = b2u(sext(Eval(t.A, m, memo), t.A.W) <= sext(Eval(t.B, m, memo), t.B.W))
	case OIte:
		if Eval(t.C, m, memo) != 0 {
			r = Eval(t.A, m, memo)
		} else {
			r = Eval(t.B, m, memo)
		}
	case OBNot:
		r = ^Eval(t.A, m, memo) & mask(t.W)
	case ONeg:
		r = -Eval(t.A, m, memo) & mask(t.W)
	case OZExt:
		r = Eval(t.A, m, memo)
	case OSExt:
		r = uint64(sext(Eval(t.A, m, memo), t.A.W)) & mask(t.W)
	case OExtract:
		r = (Eval(t.A, m, memo) >> t.K) & mask(t.W)
	case OConcat:
		r = Eval(t.A, m, memo)<<t.B.W | Eval(t.B, m, memo)
	default:
		v, ok := foldBin(t.Op, Eval(t.A, m, memo), Eval(t.B, m, memo), t.W)
		if !ok {
			panic("Eval: bad op " + opNames[t.Op])
		}
		r = v
	}
	memo[t] = r
	return r
}

func maskOrBool(w uint8) uint64 {
	if w == 0 {
		return 1
	}
	return mask(w)
}

func b2u(b bool) uint64 {
	if b {
		return 1
	}
	return 0
}

func sortOf(w uint8) string {
	if w == 0 {
		return "Bool"
	}
	return fmt.Sprintf("(_ BitVec %d)", w)
}

func constLit(k uint64, w uint8) string {
	if w == 0 {
		if k != 0 {
			return "true"
		}
		return "false"
	}
	if w%4 == 0 {
		return fmt.Sprintf("#x%0*x", int(w/4), k)
	}
	return fmt.Sprintf("#b%0*b", int(w), k)
}

// Ref is how a term is referenced in SMT text once defined.
func Ref(t *Term) string {
	switch t.Op {
	case OConst:
		return constLit(t.K, t.W)
	case OSym:
		return t.Name
	}
	return fmt.Sprintf("t%d", t.ID)
}

// Body gives the SMT-LIB expression of t in terms of Ref() of its children.
func Body(t *Term) string {
	switch t.Op {
	case OConst, OSym:
		return Ref(t)
	case ONot, OBNot, ONeg:
		return "(" + opNames[t.Op] + " " + Ref(t.A) + ")"
	case OIte:
		return "(ite " + Ref(t.C) + " " + Ref(t.A) + " " + Ref(t.B) + ")"
	case OZExt:
		return fmt.Sprintf("((_ zero_extend %d) %s)", t.W-t.A.W, Ref(t.A))
	case OSExt:
		return fmt.Sprintf("((_ sign_extend %d) %s)", t.W-t.A.W, Ref(t.A))
	case OExtract:
		return fmt.Sprintf("((_ extract %d %d) %s)", uint64(t.W)+t.K-1, t.K, Ref(t.A))
	}
	return "(" + opNames[t.Op] + " " + Ref(t.A) + " " + Ref(t.B) + ")"
}

// String renders the term fully expanded (debugging only).
func (t *Term) String() string {
	var sb strings.Builder
	var rec func(t *Term, d int)
	rec = func(t *Term, d int) {
		if d > 12 {
			sb.WriteString("...")
			return
		}
		switch t.Op {
		case OConst, OSym:
			sb.WriteString(Ref(t))
			return
		}
		sb.WriteString("(" + opNames[t.Op])
		if t.Op == OExtract {
			fmt.Fprintf(&sb, "[%d+%d]", t.K, t.W)
		}
		if t.Op == OZExt || t.Op == OSExt {
			fmt.Fprintf(&sb, "%d", t.W)
		}
		for _, x := range []*Term{t.C, t.A, t.B} {
			if x != nil {
				sb.WriteString(" ")
				rec(x, d+1)
			}
		}
		sb.WriteString(")")
	}
	rec(t, 0)
	return sb.String()
}
