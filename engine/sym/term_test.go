package sym

import (
	"math/rand"
	"testing"
)

// random terms: the simplified construction must evaluate like the naive semantics.
func TestSimplifierSoundness(t *testing.T) {
	rng := rand.New(rand.NewSource(7))
	for iter := 0; iter < 3000; iter++ {
		c := NewCtx()
		syms := []*Term{c.Sym("a", 8), c.Sym("b", 8), c.Sym("c", 8), c.Sym("d", 8)}
		type pair struct {
			t   *Term
			ref func(m map[string]uint64) uint64
		}
		var pool []pair
		for _, s := range syms {
			s := s
			pool = append(pool, pair{s, func(m map[string]uint64) uint64 { return m[s.Name] }})
		}
		widen := func(p pair, w uint8) pair {
			if p.t.W == w {
				return p
			}
			if p.t.W < w {
				return pair{c.ZExt(p.t, w), p.ref}
			}
			return pair{c.Extract(p.t, 0, w), func(m map[string]uint64) uint64 { return p.ref(m) & mask(w) }}
		}
		for k := 0; k < 14; k++ {
			w := []uint8{8, 16, 32}[rng.Intn(3)]
			x := widen(pool[rng.Intn(len(pool))], w)
			y := widen(pool[rng.Intn(len(pool))], w)
			var np pair
			switch rng.Intn(9) {
			case 0:
				np = pair{c.Bin(OAdd, x.t, y.t), func(m map[string]uint64) uint64 { return (x.ref(m) + y.ref(m)) & mask(w) }}
			case 1:
				np = pair{c.Bin(OSub, x.t, y.t), func(m map[string]uint64) uint64 { return (x.ref(m) - y.ref(m)) & mask(w) }}
			case 2:
				k := uint64(rng.Intn(5))
				np = pair{c.Bin(OMul, x.t, c.Const(k, w)), func(m map[string]uint64) uint64 { return (x.ref(m) * k) & mask(w) }}
			case 3:
				np = pair{c.Bin(OURem, x.t, c.Const(65536, w)), func(m map[string]uint64) uint64 {
					if w <= 16 {
						return x.ref(m) & mask(w) // 65536 truncates to 0: x % 0 = x in SMT-LIB
					}
					return x.ref(m) % 65536
				}}
				if w <= 16 {
					continue
				}
			case 4:
				if w != 32 {
					continue
				}
				lo := widen(pool[rng.Intn(4)], 16)
				hi := widen(pool[rng.Intn(4)], 16)
				l32, h32 := c.ZExt(lo.t, 32), c.ZExt(hi.t, 32)
				np = pair{c.Bin(OAdd, l32, c.Bin(OMul, h32, c.Const(65536, 32))), func(m map[string]uint64) uint64 {
					return (lo.ref(m)&0xffff + (hi.ref(m)&0xffff)*65536) & mask(32)
				}}
			case 5:
				np = pair{c.Neg(x.t), func(m map[string]uint64) uint64 { return (-x.ref(m)) & mask(w) }}
			case 6:
				np = pair{c.Bin(OBAnd, x.t, c.Const(0xff, w)), func(m map[string]uint64) uint64 { return x.ref(m) & 0xff & mask(w) }}
			case 7:
				np = pair{c.Bin(OShl, x.t, c.Const(3, w)), func(m map[string]uint64) uint64 { return (x.ref(m) << 3) & mask(w) }}
			case 8:
				np = pair{c.BoolToBV(c.Eq(x.t, y.t), w), func(m map[string]uint64) uint64 { return b2u(x.ref(m) == y.ref(m)) }}
			}
			pool = append(pool, np)
		}
		for trial := 0; trial < 6; trial++ {
			m := map[string]uint64{}
			for _, s := range syms {
				m[s.Name] = uint64(rng.Intn(256))
				if rng.Intn(3) == 0 {
					m[s.Name] = uint64(rng.Intn(3))
				}
			}
			memo := map[*Term]uint64{}
			for i, p := range pool {
				got := Eval(p.t, m, memo)
				want := p.ref(m) & maskOrBool(p.t.W)
				if got != want {
					t.Fatalf("iter %d term %d: %s evaluates to %d, reference %d under %v", iter, i, p.t, got, want, m)
				}
			}
		}
	}
}
