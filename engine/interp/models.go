package interp

import (
	"fmt"
	"go/types"
	"reflect"
	"strconv"
	"strings"
	"sync"

	"gosym/sym"
)

// registerModelNatives wires the environment models: replacements by
// interpreted Go-level models (package zzverif/model) and engine-native ones.
func registerModelNatives(p *Program) {
	R := p.replace
	m := func(real, model string) { R[real] = modelPkg + "." + model }
	m("crypto/md5.New", "MD5New")
	m("bytes.Compare", "BytesCompare")
	m("internal/bytealg.Compare", "BytesCompare")
	m("context.Background", "ContextBackground")
	m("context.TODO", "ContextBackground")
	m("context.WithCancel", "ContextWithCancel")

	// memfs
	for real, model := range map[string]string{
		"os.Lstat": "OsLstat", "os.Stat": "OsStat", "os.Readlink": "OsReadlink",
		"os.Mkdir": "OsMkdir", "os.MkdirAll": "OsMkdirAll", "os.Symlink": "OsSymlink",
		"os.Remove": "OsRemove", "os.RemoveAll": "OsRemoveAll", "os.Rename": "OsRename",
		"os.Truncate": "OsTruncate", "os.Chmod": "OsChmod", "os.MkdirTemp": "OsMkdirTemp",
		"io/ioutil.TempDir": "OsMkdirTemp", "os.Getwd": "OsGetwd", "os.ReadDir": "OsReadDir",
		"io/ioutil.ReadDir": "IoutilReadDir", "path/filepath.Walk": "FilepathWalk", "path/filepath.Abs": "FilepathAbs",
		"os.OpenFile": "OsOpenFile", "os.Open": "OsOpen", "os.Create": "OsCreate",
		"os.ReadFile": "OsReadFile", "io/ioutil.ReadFile": "OsReadFile",
		"os.WriteFile": "OsWriteFile", "io/ioutil.WriteFile": "OsWriteFile",
		"(*os.File).Read": "FileRead", "(*os.File).ReadAt": "FileReadAt", "(*os.File).Write": "FileWrite",
		"(*os.File).WriteString": "FileWriteString", "(*os.File).WriteAt": "FileWriteAt", "(*os.File).Seek": "FileSeek",
		"(*os.File).Stat": "FileStat", "(*os.File).Truncate": "FileTruncate", "(*os.File).Sync": "FileSync",
		"(*os.File).Close": "FileClose", "(*os.File).Name": "FileName", "(*os.File).Chmod": "FileChmod",
		"(*os.File).Readdirnames": "FileReaddirnames", "(*os.File).Readdir": "FileReaddir",
		"(*os.File).ReadFrom": "FileReadFrom", "(*os.File).WriteTo": "FileWriteTo",
		"io.copyBuffer": "IoCopyBuffer",
	} {
		m(real, model)
	}
	// zip container + eos models live in their own package (loaded only by the checks that need them)
	for real, model := range map[string]string{
		"github.com/itchio/arkive/zip.NewWriter": "ZipNewWriter", "(*github.com/itchio/arkive/zip.Writer).CreateHeader": "ZipCreateHeader",
		"(*github.com/itchio/arkive/zip.Writer).Close": "ZipWriterClose", "github.com/itchio/arkive/zip.NewReader": "ZipNewReader",
		"(*github.com/itchio/arkive/zip.File).Open": "ZipFileOpen", "github.com/itchio/arkive/zip.FileInfoHeader": "ZipFileInfoHeader",
		"github.com/itchio/httpkit/eos.Open": "EosOpen",
	} {
		R[real] = modelPkg + "zip." + model
	}
	p.initAllow[modelPkg+"zip"] = true
	p.initOverride["github.com/itchio/arkive/zip"] = p.funcByFullName(modelPkg + "zip.InitZip")
	N := p.natives
	N["github.com/itchio/screw.IsWrongCase"] = func(r *Run, g *Goroutine, a []Value) Value { return false }
	N["(syscall.Errno).Error"] = func(r *Run, g *Goroutine, a []Value) Value {
		return "errno " + strconv.FormatUint(a[0].(uint64), 10)
	}

	// ---- protobuf (tag-faithful mini codec) --------------------------------------
	N["github.com/golang/protobuf/proto.Marshal"] = func(r *Run, g *Goroutine, a []Value) Value {
		b, err := r.protoMarshal(g, a[0].(Iface))
		if err != "" {
			return Tuple{Slice{}, r.newError(g, err)}
		}
		return Tuple{Slice{Data: b, Len: len(b)}, Iface{}}
	}
	N["github.com/golang/protobuf/proto.Unmarshal"] = func(r *Run, g *Goroutine, a []Value) Value {
		s := a[0].(Slice)
		if err := r.protoUnmarshal(g, s.Data[:s.Len], a[1].(Iface)); err != "" {
			return r.newError(g, err)
		}
		return Iface{}
	}
	N["(*github.com/golang/protobuf/proto.Buffer).Unmarshal"] = func(r *Run, g *Goroutine, a []Value) Value {
		// Buffer{buf []byte; idx int; deterministic bool}
		bs := (*a[0].(*Value)).(Struct)
		buf := bs[0].(Slice)
		idx := int(bs[1].(uint64))
		if idx > buf.Len {
			idx = buf.Len
		}
		err := r.protoUnmarshal(g, buf.Data[idx:buf.Len], a[1].(Iface))
		bs[1] = uint64(buf.Len)
		if err != "" {
			return r.newError(g, err)
		}
		return Iface{}
	}
	N["(*github.com/golang/protobuf/proto.Buffer).Marshal"] = func(r *Run, g *Goroutine, a []Value) Value {
		bs := (*a[0].(*Value)).(Struct)
		b, err := r.protoMarshal(g, a[1].(Iface))
		if err != "" {
			return r.newError(g, err)
		}
		buf := bs[0].(Slice)
		nd := append(append([]Value{}, buf.Data[:buf.Len]...), b...)
		bs[0] = Slice{Data: nd, Len: len(nd)}
		return Iface{}
	}
	N["github.com/golang/protobuf/proto.Clone"] = func(r *Run, g *Goroutine, a []Value) Value {
		in := a[0].(Iface)
		p := in.V.(*Value)
		if p == nil {
			return in
		}
		cell := r.deepCopy(*p, map[*Value]*Value{})
		return Iface{T: in.T, V: &cell}
	}
	// generated Reset()/ProtoReflect() bookkeeping
	N["(google.golang.org/protobuf/internal/impl.Export).MessageStateOf"] = func(r *Run, g *Goroutine, a []Value) Value { return (*Value)(nil) }
	N["(*google.golang.org/protobuf/internal/impl.MessageState).StoreMessageInfo"] = func(r *Run, g *Goroutine, a []Value) Value { return nil }
	N["(google.golang.org/protobuf/internal/impl.Export).Pointer"] = func(r *Run, g *Goroutine, a []Value) Value { return (*Value)(nil) }
	N["google.golang.org/protobuf/internal/impl.Export.Pointer"] = N["(google.golang.org/protobuf/internal/impl.Export).Pointer"]

	for _, n := range []string{"RegisterType", "RegisterEnum", "RegisterFile", "RegisterMapType", "RegisterExtension"} {
		N["github.com/golang/protobuf/proto."+n] = func(r *Run, g *Goroutine, a []Value) Value { return nil }
	}

	// ---- gob ----------------------------------------------------------------------
	N["encoding/gob.Register"] = func(r *Run, g *Goroutine, a []Value) Value {
		if iv, ok := a[0].(Iface); ok && iv.T != nil {
			r.gobRegistered()[iv.T.String()] = true
		}
		return nil
	}
	N[rtPkg+".CloneViaGob"] = func(r *Run, g *Goroutine, a []Value) Value {
		dst, src := a[0].(Iface), a[1].(Iface)
		dp, sp := dst.V.(*Value), src.V.(*Value)
		if dp == nil || sp == nil {
			return r.newError(g, "gob: nil pointer")
		}
		elem := src.T.Underlying().(*types.Pointer).Elem()
		v, err := r.gobCopy(elem, *sp)
		if err != "" {
			return r.newError(g, err)
		}
		*dp = v
		return Iface{}
	}

	// ---- misc reflection-based helpers ------------------------------------------------
	N["github.com/mitchellh/copystructure.Copy"] = func(r *Run, g *Goroutine, a []Value) Value {
		in := a[0].(Iface)
		return Tuple{Iface{T: in.T, V: r.deepCopy(in.V, map[*Value]*Value{})}, Iface{}}
	}
	N["github.com/go-ozzo/ozzo-validation.ValidateStruct"] = func(r *Run, g *Goroutine, a []Value) Value { return Iface{} }
	N["github.com/go-ozzo/ozzo-validation.Field"] = func(r *Run, g *Goroutine, a []Value) Value { return (*Value)(nil) }
	N["github.com/itchio/headway/united.FormatBytes"] = func(r *Run, g *Goroutine, a []Value) Value { return "<bytes>" }
	N["github.com/itchio/headway/united.FormatDuration"] = func(r *Run, g *Goroutine, a []Value) Value { return "<duration>" }
	N["github.com/itchio/headway/united.FormatBPS"] = func(r *Run, g *Goroutine, a []Value) Value { return "<bps>" }
	N[rtPkg+".Model"] = func(r *Run, g *Goroutine, a []Value) Value {
		fn := r.P.Func(modelPkg, str(a[0]))
		if fn == nil {
			r.abort("rt.Model: no model function %s", str(a[0]))
		}
		args := a[1].(Slice)
		res := r.callFunction(g, g.top, fn, append([]Value{}, args.Data[:args.Len]...))
		if res == nil {
			return uint64(0)
		}
		return res
	}
	N[rtPkg+".TempDir"] = func(r *Run, g *Goroutine, a []Value) Value {
		r.tmpCount++
		name := fmt.Sprintf("/v%d", r.tmpCount)
		fn := r.P.Func(modelPkg, "OsMkdirAll")
		r.callFunction(g, g.top, fn, []Value{name, uint64(0o755)})
		return name
	}
	N[rtPkg+".SetProcs"] = func(r *Run, g *Goroutine, a []Value) Value {
		return N[rtPkg+".SetParam"](r, g, []Value{"numcpu", a[0]})
	}
	N[rtPkg+".SetParam"] = func(r *Run, g *Goroutine, a []Value) Value {
		if r.ownParams == false {
			np := map[string]int{}
			for k, v := range r.params {
				np[k] = v
			}
			r.params = np
			r.ownParams = true
		}
		r.params[str(a[0])] = int(int64(a[1].(uint64)))
		return nil
	}

	p.initOverride["errors"] = nil // only errorType (reflectlite) and ErrUnsupported
	p.initOverride["os"] = p.funcByFullName(modelPkg + ".InitOS")
	p.initOverride["strconv"] = p.funcByFullName(modelPkg + ".InitStrconv")
	for _, path := range []string{
		"io", "bytes", "bufio", "sort", "strings", "context", "io/fs", "internal/oserror",
		"encoding/binary", "container/list", "path/filepath", "path", "hash", "math/bits", "io/ioutil",
		"github.com/pkg/errors",
		"github.com/itchio/lake", "github.com/itchio/lake/tlc", "github.com/itchio/lake/pools",
		"github.com/itchio/lake/pools/fspool", "github.com/itchio/lake/pools/nullpool", "github.com/itchio/lake/pools/zippool",
		"github.com/itchio/savior", "github.com/itchio/savior/seeksource", "github.com/itchio/savior/filesource",
		"github.com/itchio/screw", "github.com/itchio/headway/state", "github.com/itchio/headway/counter",
		"github.com/hashicorp/golang-lru/simplelru", "github.com/jgallagher/gosaca",
		"github.com/itchio/wharf/zzverif/rt", "github.com/itchio/wharf/zzverif/model",
		// the real gzip path (C13 H_gzip): pure Go once the arch-specific crc32 detection reads "no feature"
		"compress/flate", "compress/gzip", "hash/crc32", "github.com/itchio/savior/gzipsource", "github.com/itchio/savior/flatesource", "github.com/itchio/kompress/flate", "github.com/itchio/kompress/gzip",
	} {
		p.initAllow[path] = true
	}
}

func (r *Run) gobRegistered() map[string]bool {
	if m, ok := r.side["gob-registry"]; ok {
		return m.(map[string]bool)
	}
	m := map[string]bool{}
	r.side["gob-registry"] = m
	return m
}

// ---- protobuf model ----------------------------------------------------------------

type protoField struct {
	index int    // struct field index
	num   uint64 // field number
	wire  string // varint | bytes | fixed32 | fixed64 | zigzag32 | zigzag64
	rep   bool
	typ   types.Type
}

var protoFieldCache = map[*types.Struct][]protoField{}
var protoMu sync.Mutex

func protoFields(st *types.Struct) []protoField {
	// (called under the per-worker interpreter; guard with the program mutex-free map is fine
	// because entries are immutable once computed, but writes must be serialised)
	protoMu.Lock()
	defer protoMu.Unlock()
	if f, ok := protoFieldCache[st]; ok {
		return f
	}
	var out []protoField
	for i := 0; i < st.NumFields(); i++ {
		tag := reflect.StructTag(st.Tag(i)).Get("protobuf")
		if tag == "" {
			continue
		}
		parts := strings.Split(tag, ",")
		if len(parts) < 3 {
			continue
		}
		num, _ := strconv.ParseUint(parts[1], 10, 64)
		out = append(out, protoField{index: i, num: num, wire: parts[0], rep: parts[2] == "rep", typ: st.Field(i).Type()})
	}
	protoFieldCache[st] = out
	return out
}

func wireTypeOf(kind string) uint64 {
	switch kind {
	case "varint", "zigzag32", "zigzag64":
		return 0
	case "fixed64":
		return 1
	case "bytes":
		return 2
	case "fixed32":
		return 5
	}
	return 7
}

func appendUvarint(b []Value, v uint64) []Value {
	for v >= 0x80 {
		b = append(b, uint64(byte(v)|0x80))
		v >>= 7
	}
	return append(b, uint64(byte(v)))
}

// int64Bytes renders an integer (any width) as 8 little-endian bytes of its
// 64-bit extension (sign- or zero-extended according to the Go type).
func (r *Run) int64Bytes(v Value, t types.Type) []Value {
	k := intKindOf(t)
	out := make([]Value, 8)
	switch x := v.(type) {
	case bool:
		u := uint64(0)
		if x {
			u = 1
		}
		for i := range out {
			out[i] = uint64(byte(u >> (8 * i)))
		}
	case uint64:
		for i := range out {
			out[i] = uint64(byte(x >> (8 * i)))
		}
	case *sym.Term:
		t64 := x
		if x.W == 0 {
			t64 = r.C.BoolToBV(x, 64)
		} else if x.W < 64 {
			if k.signed {
				t64 = r.C.SExt(x, 64)
			} else {
				t64 = r.C.ZExt(x, 64)
			}
		}
		for i := range out {
			out[i] = simp(r.C.Extract(t64, uint8(8*i), 8), ikind{8, false})
		}
	default:
		for i := range out {
			out[i] = uint64(0)
		}
	}
	return out
}

func (r *Run) protoMarshal(g *Goroutine, msg Iface) ([]Value, string) {
	p, ok := msg.V.(*Value)
	if !ok {
		return nil, "proto: Marshal called with non-pointer message"
	}
	if p == nil {
		return nil, "proto: Marshal called with nil"
	}
	st, ok := msg.T.Underlying().(*types.Pointer).Elem().Underlying().(*types.Struct)
	if !ok {
		return nil, "proto: not a struct message"
	}
	return r.protoEncodeStruct(g, st, (*p).(Struct)), ""
}

func (r *Run) protoEncodeStruct(g *Goroutine, st *types.Struct, s Struct) []Value {
	var out []Value
	for _, f := range protoFields(st) {
		v := s[f.index]
		key := f.num<<3 | wireTypeOf(f.wire)
		switch f.wire {
		case "varint", "zigzag32", "zigzag64", "fixed32", "fixed64":
			// proto3: zero values are not emitted. A CONCRETE scalar gets its real encoding (varint / zigzag /
			// fixed), so concrete messages have exactly their native length and offsets; a SYMBOLIC scalar is always
			// emitted, in the model form "key with wire type 1 + 8 bytes", which keeps the layout concrete.
			var conc uint64
			isConc := true
			switch x := v.(type) {
			case uint64:
				conc = x
			case bool:
				if x {
					conc = 1
				}
			default:
				isConc = false
			}
			if !isConc {
				out = appendUvarint(out, f.num<<3|1)
				out = append(out, r.int64Bytes(v, f.typ)...)
				continue
			}
			if conc == 0 {
				continue
			}
			if k := intKindOf(f.typ); k.signed && k.w > 0 && k.w < 64 && conc&(1<<(k.w-1)) != 0 {
				conc |= ^uint64(0) << k.w // sign-extend: negative int32 varints take 10 bytes
			}
			switch f.wire {
			case "varint":
				out = appendUvarint(out, f.num<<3|0)
				out = appendUvarint(out, conc)
			case "zigzag32", "zigzag64":
				out = appendUvarint(out, f.num<<3|0)
				out = appendUvarint(out, (conc<<1)^uint64(int64(conc)>>63))
			case "fixed32":
				out = appendUvarint(out, f.num<<3|5)
				for i := 0; i < 4; i++ {
					out = append(out, uint64(byte(conc>>(8*i))))
				}
			case "fixed64":
				out = appendUvarint(out, f.num<<3|1)
				for i := 0; i < 8; i++ {
					out = append(out, uint64(byte(conc>>(8*i))))
				}
			}
		case "bytes":
			emit := func(payload []Value) {
				out = appendUvarint(out, key)
				out = appendUvarint(out, uint64(len(payload)))
				out = append(out, payload...)
			}
			switch x := v.(type) {
			case string:
				if x != "" {
					emit(stringToSlice(x).Data)
				}
			case Slice:
				if f.rep {
					// repeated messages ([]*T) or repeated bytes/strings
					for i := 0; i < x.Len; i++ {
						switch e := x.Data[i].(type) {
						case *Value:
							if e == nil {
								emit(nil)
								continue
							}
							est := f.typ.Underlying().(*types.Slice).Elem().Underlying().(*types.Pointer).Elem().Underlying().(*types.Struct)
							emit(r.protoEncodeStruct(g, est, (*e).(Struct)))
						case string:
							emit(stringToSlice(e).Data)
						case Slice:
							emit(e.Data[:e.Len])
						}
					}
				} else if x.Len > 0 {
					emit(append([]Value{}, x.Data[:x.Len]...))
				}
			case *Value:
				if x != nil {
					est := f.typ.Underlying().(*types.Pointer).Elem().Underlying().(*types.Struct)
					emit(r.protoEncodeStruct(g, est, (*x).(Struct)))
				}
			}
		}
	}
	return out
}

// concreteByte: message structure bytes (keys, lengths) must be concrete.
func (r *Run) concreteByte(g *Goroutine, v Value) uint64 {
	switch x := v.(type) {
	case uint64:
		return x
	case *sym.Term:
		return r.Concretize(x, r.siteOf(g)+" proto structure byte")
	}
	return 0
}

func (r *Run) readUvarint(g *Goroutine, b []Value, pos *int) (uint64, bool) {
	var x uint64
	var s uint
	for i := 0; i < 10; i++ {
		if *pos >= len(b) {
			return 0, false
		}
		c := r.concreteByte(g, b[*pos])
		*pos++
		if c < 0x80 {
			return x | c<<s, true
		}
		x |= (c & 0x7f) << s
		s += 7
	}
	return 0, false
}

func (r *Run) protoUnmarshal(g *Goroutine, b []Value, msg Iface) string {
	p, ok := msg.V.(*Value)
	if !ok || p == nil {
		return "proto: Unmarshal called with nil"
	}
	st, ok := msg.T.Underlying().(*types.Pointer).Elem().Underlying().(*types.Struct)
	if !ok {
		return "proto: not a struct message"
	}
	return r.protoDecodeStruct(g, st, (*p).(Struct), b)
}

const protoErr = "proto: cannot parse invalid wire-format data"

func (r *Run) protoDecodeStruct(g *Goroutine, st *types.Struct, s Struct, b []Value) string {
	fields := protoFields(st)
	pos := 0
	for pos < len(b) {
		key, ok := r.readUvarint(g, b, &pos)
		if !ok {
			return protoErr
		}
		num, wt := key>>3, key&7
		if num == 0 {
			return protoErr
		}
		var f *protoField
		isScalar := func(w string) bool { return w != "bytes" }
		for i := range fields {
			if fields[i].num != num {
				continue
			}
			fw := fields[i].wire
			switch wt {
			case 0:
				if fw == "varint" || fw == "zigzag32" || fw == "zigzag64" {
					f = &fields[i]
				}
			case 1:
				// real fixed64, or the model form of a symbolic scalar of any kind
				if isScalar(fw) {
					f = &fields[i]
				}
			case 5:
				if fw == "fixed32" {
					f = &fields[i]
				}
			case 2:
				if fw == "bytes" {
					f = &fields[i]
				}
			}
		}
		switch wt {
		case 0:
			val, ok := r.readUvarint(g, b, &pos)
			if !ok {
				return "unexpected EOF"
			}
			if f == nil {
				continue // unknown field: skipped
			}
			if f.wire == "zigzag32" || f.wire == "zigzag64" {
				val = (val >> 1) ^ -(val & 1)
			}
			if isBoolType(f.typ) {
				s[f.index] = val != 0
			} else if k := intKindOf(f.typ); k.w == 0 {
				s[f.index] = val != 0
			} else {
				s[f.index] = k.norm(val)
			}
		case 5:
			if pos+4 > len(b) {
				return "unexpected EOF"
			}
			raw := append(append([]Value{}, b[pos:pos+4]...), uint64(0), uint64(0), uint64(0), uint64(0))
			pos += 4
			if f == nil {
				continue
			}
			s[f.index] = r.intFromBytes(raw, f.typ)
		case 1:
			if pos+8 > len(b) {
				return "unexpected EOF"
			}
			raw := b[pos : pos+8]
			pos += 8
			if f == nil {
				continue // unknown field: skipped
			}
			s[f.index] = r.intFromBytes(raw, f.typ)
		case 2:
			n, ok := r.readUvarint(g, b, &pos)
			if !ok {
				return protoErr
			}
			if n > uint64(len(b)-pos) {
				return "unexpected EOF"
			}
			payload := b[pos : pos+int(n)]
			pos += int(n)
			if f == nil {
				continue
			}
			ft := f.typ
			if f.rep {
				et := ft.Underlying().(*types.Slice).Elem()
				var elem Value
				switch eu := et.Underlying().(type) {
				case *types.Pointer:
					est := eu.Elem().Underlying().(*types.Struct)
					cell := zero(eu.Elem())
					if err := r.protoDecodeStruct(g, est, cell.(Struct), payload); err != "" {
						return err
					}
					elem = &cell
				case *types.Basic:
					elem = r.bytesToString(Slice{Data: payload, Len: len(payload)})
				default:
					elem = Slice{Data: append([]Value{}, payload...), Len: len(payload)}
				}
				old := s[f.index].(Slice)
				nd := append(append([]Value{}, old.Data[:old.Len]...), elem)
				s[f.index] = Slice{Data: nd, Len: len(nd)}
				continue
			}
			switch fu := ft.Underlying().(type) {
			case *types.Basic: // string
				s[f.index] = r.bytesToString(Slice{Data: payload, Len: len(payload)})
			case *types.Slice: // []byte
				d := append([]Value{}, payload...)
				s[f.index] = Slice{Data: d, Len: len(d)}
			case *types.Pointer:
				est := fu.Elem().Underlying().(*types.Struct)
				var cell Value
				if old, ok := s[f.index].(*Value); ok && old != nil {
					cell = *old
				} else {
					cell = zero(fu.Elem())
				}
				if err := r.protoDecodeStruct(g, est, cell.(Struct), payload); err != "" {
					return err
				}
				s[f.index] = &cell
			}
		default:
			return protoErr
		}
	}
	return ""
}

// intFromBytes rebuilds an integer of Go type t from 8 little-endian bytes.
func (r *Run) intFromBytes(raw []Value, t types.Type) Value {
	allConc := true
	var u uint64
	for i, b := range raw {
		c, ok := b.(uint64)
		if !ok {
			allConc = false
			break
		}
		u |= c << (8 * i)
	}
	if isBoolType(t) {
		if allConc {
			return u != 0
		}
	}
	k := intKindOf(t)
	if allConc {
		if k.w == 0 {
			return u != 0
		}
		return k.norm(u)
	}
	// symbolic: concat the bytes (high first)
	var acc *sym.Term
	for i := 7; i >= 0; i-- {
		bt := r.term(raw[i], ikind{8, false})
		if acc == nil {
			acc = bt
		} else {
			acc = r.C.Concat(acc, bt)
		}
	}
	if isBoolType(t) {
		return simpBool(r.C.Not(r.C.Eq(acc, r.C.Const(0, 64))))
	}
	if k.w < 64 {
		acc = r.C.Extract(acc, 0, k.w)
	}
	return simp(acc, k)
}

// ---- deep copies -------------------------------------------------------------------------

// deepCopy clones a value graph (pointers, slices, maps), preserving sharing.
func (r *Run) deepCopy(v Value, seen map[*Value]*Value) Value {
	switch x := v.(type) {
	case *Value:
		if x == nil {
			return x
		}
		if n, ok := seen[x]; ok {
			return n
		}
		n := new(Value)
		seen[x] = n
		*n = r.deepCopy(*x, seen)
		return n
	case Struct:
		n := make(Struct, len(x))
		for i, f := range x {
			n[i] = r.deepCopy(f, seen)
		}
		return n
	case Array:
		n := make(Array, len(x))
		for i, f := range x {
			n[i] = r.deepCopy(f, seen)
		}
		return n
	case Slice:
		if x.Data == nil {
			return x
		}
		d := make([]Value, x.Len)
		for i := 0; i < x.Len; i++ {
			d[i] = r.deepCopy(x.Data[i], seen)
		}
		return Slice{Data: d, Len: x.Len}
	case *Map:
		if x == nil {
			return x
		}
		n := newMap()
		for i := range x.keys {
			if x.live[i] {
				r.mapSet(nil, n, x.keys[i], r.deepCopy(x.vals[i], seen))
			}
		}
		return n
	case Iface:
		return Iface{T: x.T, V: r.deepCopy(x.V, seen)}
	}
	return v
}

// gobCopy models a gob encode/decode round trip of a value of static type t.
func (r *Run) gobCopy(t types.Type, v Value) (Value, string) {
	switch u := t.Underlying().(type) {
	case *types.Struct:
		s := v.(Struct)
		n := make(Struct, len(s))
		for i := range s {
			f := u.Field(i)
			if !f.Exported() {
				n[i] = zero(f.Type())
				continue
			}
			c, err := r.gobCopy(f.Type(), s[i])
			if err != "" {
				return nil, err
			}
			n[i] = c
		}
		return n, ""
	case *types.Pointer:
		p := v.(*Value)
		if p == nil {
			return p, ""
		}
		c, err := r.gobCopy(u.Elem(), *p)
		if err != "" {
			return nil, err
		}
		return &c, ""
	case *types.Slice:
		s := v.(Slice)
		if s.Len == 0 {
			return Slice{}, ""
		}
		d := make([]Value, s.Len)
		for i := 0; i < s.Len; i++ {
			c, err := r.gobCopy(u.Elem(), s.Data[i])
			if err != "" {
				return nil, err
			}
			d[i] = c
		}
		return Slice{Data: d, Len: s.Len}, ""
	case *types.Array:
		a := v.(Array)
		n := make(Array, len(a))
		for i := range a {
			c, err := r.gobCopy(u.Elem(), a[i])
			if err != "" {
				return nil, err
			}
			n[i] = c
		}
		return n, ""
	case *types.Map:
		m := v.(*Map)
		if m == nil || m.n == 0 {
			return (*Map)(nil), ""
		}
		n := newMap()
		for i := range m.keys {
			if m.live[i] {
				c, err := r.gobCopy(u.Elem(), m.vals[i])
				if err != "" {
					return nil, err
				}
				r.mapSet(nil, n, m.keys[i], c)
			}
		}
		return n, ""
	case *types.Interface:
		iv := v.(Iface)
		if iv.T == nil {
			return iv, ""
		}
		if !r.gobRegistered()[iv.T.String()] {
			return nil, "gob: type not registered for interface: " + iv.T.String()
		}
		c, err := r.gobCopy(iv.T, iv.V)
		if err != "" {
			return nil, err
		}
		return Iface{T: iv.T, V: c}, ""
	case *types.Chan, *types.Signature:
		return zero(t), ""
	}
	return v, ""
}
