package interp

// registerModelNatives wires the environment models: replacements by
// interpreted Go-level models (package zzverif/model) and engine-native ones.
func registerModelNatives(p *Program) {
	R := p.replace
	m := func(real, model string) { R[real] = modelPkg + "." + model }
	m("crypto/md5.New", "MD5New")
	m("context.Background", "ContextBackground")
	m("context.TODO", "ContextBackground")
	m("context.WithCancel", "ContextWithCancel")

	p.initOverride["errors"] = nil // only errorType (reflectlite) and ErrUnsupported
	for _, path := range []string{
		"io", "bytes", "bufio", "sort", "strings", "context", "io/fs", "internal/oserror",
		"encoding/binary", "container/list", "path/filepath", "path", "hash", "math/bits",
		"github.com/pkg/errors",
		"github.com/itchio/lake", "github.com/itchio/lake/tlc", "github.com/itchio/lake/pools",
		"github.com/itchio/lake/pools/fspool", "github.com/itchio/lake/pools/nullpool", "github.com/itchio/lake/pools/zippool",
		"github.com/itchio/savior", "github.com/itchio/savior/seeksource", "github.com/itchio/savior/filesource",
		"github.com/itchio/screw", "github.com/itchio/headway/state", "github.com/itchio/headway/counter",
		"github.com/hashicorp/golang-lru/simplelru", "github.com/jgallagher/gosaca",
		"github.com/itchio/wharf/zzverif/rt", "github.com/itchio/wharf/zzverif/model",
	} {
		p.initAllow[path] = true
	}
}
