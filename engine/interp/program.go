package interp

import (
	"fmt"
	"go/types"
	"os"
	"strings"
	"sync"

	"golang.org/x/tools/go/packages"
	"golang.org/x/tools/go/ssa"
	"golang.org/x/tools/go/ssa/ssautil"
)

type argKind uint8

const (
	argNone argKind = iota
	argSlot
	argConst
	argGlobal
)

type arg struct {
	kind argKind
	slot int
	v    Value
	g    *ssa.Global
}

type cinstr struct {
	ins  ssa.Instruction
	dst  int
	args []arg
	typ  types.Type // instruction-specific: Alloc elem type, MakeSlice elem type, Lookup value type, MakeChan elem
}

type cblock struct {
	ins  []cinstr
	nphi int
	hit  uint32 // set once the block was entered on any explored path (grid-adequacy report)
}

type nativeFn func(r *Run, g *Goroutine, args []Value) Value

type fnInfo struct {
	name   string
	nslots int
	blocks []cblock
	native nativeFn
	repl   *ssa.Function
	err    string
	noRace bool // model / harness code: memory accesses are not recorded for the race query
}

// Program is the loaded target: shared by all workers, read-only apart from
// caches guarded by mutexes.
type Program struct {
	Prog   *ssa.Program
	Pkgs   []*packages.Package
	SSAPkg map[string]*ssa.Package

	mu       sync.Mutex
	infos    sync.Map // *ssa.Function -> *fnInfo
	methods  sync.Map // methodKey -> *ssa.Function
	implMemo sync.Map // implKey -> bool

	runtimeErrorString types.Type
	natives            map[string]nativeFn
	replace            map[string]string // real function -> model function (full names)
	initOverride       map[string]*ssa.Function
	initAllow          map[string]bool
	ModelPkg           string
	RtPkg              string
}

type methodKey struct {
	t    types.Type
	name string
	pkg  *types.Package
}

type implKey struct {
	t  types.Type
	it *types.Interface
}

// LoadConfig describes what to load.
type LoadConfig struct {
	Dir      string            // /repo
	Patterns []string          // package patterns
	Overlay  map[string][]byte // virtual files
	Env      []string
}

func Load(cfg LoadConfig) (*Program, error) {
	pcfg := &packages.Config{
		Mode:    packages.LoadAllSyntax,
		Dir:     cfg.Dir,
		Overlay: cfg.Overlay,
		Env:     append(os.Environ(), cfg.Env...),
		Tests:   false,
	}
	pkgs, err := packages.Load(pcfg, cfg.Patterns...)
	if err != nil {
		return nil, err
	}
	var errs []string
	packages.Visit(pkgs, nil, func(p *packages.Package) {
		for _, e := range p.Errors {
			if len(errs) < 20 {
				errs = append(errs, e.Error())
			}
		}
	})
	if len(errs) > 0 {
		return nil, fmt.Errorf("load errors:\n%s", strings.Join(errs, "\n"))
	}
	prog, _ := ssautil.AllPackages(pkgs, ssa.InstantiateGenerics)
	prog.Build()
	p := &Program{
		Prog:         prog,
		Pkgs:         pkgs,
		SSAPkg:       map[string]*ssa.Package{},
		natives:      map[string]nativeFn{},
		replace:      map[string]string{},
		initOverride: map[string]*ssa.Function{},
		initAllow:    map[string]bool{},
	}
	for _, sp := range prog.AllPackages() {
		p.SSAPkg[sp.Pkg.Path()] = sp
	}
	rt := p.SSAPkg["runtime"]
	if rt == nil {
		return nil, fmt.Errorf("runtime package not loaded")
	}
	p.runtimeErrorString = rt.Type("errorString").Object().Type()
	registerNatives(p)
	return p, nil
}

// Func finds a package-level function by package path and name.
func (p *Program) Func(pkgPath, name string) *ssa.Function {
	sp := p.SSAPkg[pkgPath]
	if sp == nil {
		return nil
	}
	return sp.Func(name)
}

// funcByFullName resolves names like "pkg/path.Func" or "(*pkg/path.T).Method".
func (p *Program) funcByFullName(full string) *ssa.Function {
	if strings.HasPrefix(full, "(") {
		// (*pkg.T).M or (pkg.T).M
		end := strings.Index(full, ").")
		recv := full[1:end]
		meth := full[end+2:]
		ptr := strings.HasPrefix(recv, "*")
		recv = strings.TrimPrefix(recv, "*")
		dot := strings.LastIndex(recv, ".")
		sp := p.SSAPkg[recv[:dot]]
		if sp == nil {
			return nil
		}
		tn := sp.Type(recv[dot+1:])
		if tn == nil {
			return nil
		}
		var T types.Type = tn.Object().Type()
		if ptr {
			T = types.NewPointer(T)
		}
		sel := p.Prog.MethodSets.MethodSet(T).Lookup(sp.Pkg, meth)
		if sel == nil {
			return nil
		}
		return p.Prog.MethodValue(sel)
	}
	dot := strings.LastIndex(full, ".")
	return p.Func(full[:dot], full[dot+1:])
}

func (p *Program) runInit(path string) bool {
	if p.initAllow[path] {
		return true
	}
	if strings.HasPrefix(path, "github.com/itchio/wharf") {
		return true
	}
	return false
}

func (p *Program) info(fn *ssa.Function) *fnInfo {
	if v, ok := p.infos.Load(fn); ok {
		return v.(*fnInfo)
	}
	p.mu.Lock()
	defer p.mu.Unlock()
	if v, ok := p.infos.Load(fn); ok {
		return v.(*fnInfo)
	}
	info := p.compile(fn)
	p.infos.Store(fn, info)
	return info
}

func (p *Program) compile(fn *ssa.Function) *fnInfo {
	info := &fnInfo{name: fn.String()}
	if fn.Pkg != nil && strings.Contains(fn.Pkg.Pkg.Path(), "/zzverif/") {
		info.noRace = true
	} else if fn.Pkg == nil {
		if par := fn.Parent(); par != nil && par.Pkg != nil && strings.Contains(par.Pkg.Pkg.Path(), "/zzverif/") {
			info.noRace = true
		}
	}
	// generic instantiations share the origin's name for native lookup
	name := info.name
	if o := fn.Origin(); o != nil {
		name = o.String()
	}
	if nat, ok := p.natives[name]; ok {
		info.native = nat
		return info
	}
	if nat := protoGeneratedNative(fn); nat != nil {
		info.native = nat
		return info
	}
	if strings.HasPrefix(fn.Name(), "file_") && (strings.HasSuffix(fn.Name(), "_proto_init") || strings.HasSuffix(fn.Name(), "_rawDescGZIP")) {
		// generated protobuf registration code: not needed by the codec model
		info.native = func(r *Run, g *Goroutine, args []Value) Value { return zeroResult(fn) }
		return info
	}
	if rep, ok := p.replace[name]; ok {
		rf := p.funcByFullName(rep)
		if rf != nil {
			info.repl = rf
			return info
		}
		if !strings.HasPrefix(rep, modelPkg+"zip.") || fn.Blocks == nil {
			info.err = "model function " + rep + " not found"
			return info
		}
		// optional model package not loaded: interpret the real function
	}
	if fn.Blocks == nil {
		info.err = "no body (external / assembly)"
		return info
	}
	if fn.TypeParams().Len() > 0 && len(fn.TypeArgs()) == 0 {
		info.err = "uninstantiated generic"
		return info
	}
	slots := map[ssa.Value]int{}
	n := 0
	for _, prm := range fn.Params {
		slots[prm] = n
		n++
	}
	for _, fv := range fn.FreeVars {
		slots[fv] = n
		n++
	}
	for _, b := range fn.Blocks {
		for _, ins := range b.Instrs {
			if v, ok := ins.(ssa.Value); ok {
				slots[v] = n
				n++
			}
		}
	}
	info.nslots = n
	info.blocks = make([]cblock, len(fn.Blocks))
	var rands [16]*ssa.Value
	for bi, b := range fn.Blocks {
		cb := &info.blocks[bi]
		cb.ins = make([]cinstr, len(b.Instrs))
		for ii, ins := range b.Instrs {
			ci := &cb.ins[ii]
			ci.ins = ins
			ci.dst = -1
			if v, ok := ins.(ssa.Value); ok {
				ci.dst = slots[v]
			}
			if _, ok := ins.(*ssa.Phi); ok && ii == cb.nphi {
				cb.nphi++
			}
			ops := ins.Operands(rands[:0])
			if d, ok := ins.(*ssa.Defer); ok && len(ops) > 0 {
				// drop the trailing DeferStack operand
				if ops[len(ops)-1] == &d.DeferStack {
					ops = ops[:len(ops)-1]
				}
			}
			ci.args = make([]arg, len(ops))
			for oi, op := range ops {
				ci.args[oi] = p.compileArg(*op, slots)
			}
			switch x := ins.(type) {
			case *ssa.Alloc:
				ci.typ = x.Type().Underlying().(*types.Pointer).Elem()
			case *ssa.MakeSlice:
				ci.typ = x.Type().Underlying().(*types.Slice).Elem()
			case *ssa.Lookup:
				if m, ok := x.X.Type().Underlying().(*types.Map); ok {
					ci.typ = m.Elem()
				}
			case *ssa.MakeChan:
				ci.typ = x.Type().Underlying().(*types.Chan).Elem()
			case *ssa.SliceToArrayPointer:
				ci.typ = x.Type().Underlying().(*types.Pointer).Elem().Underlying()
			}
		}
	}
	return info
}

func (p *Program) compileArg(v ssa.Value, slots map[ssa.Value]int) arg {
	switch v := v.(type) {
	case nil:
		return arg{kind: argNone}
	case *ssa.Const:
		return arg{kind: argConst, v: constValue(v)}
	case *ssa.Global:
		return arg{kind: argGlobal, g: v}
	case *ssa.Function:
		return arg{kind: argConst, v: v}
	case *ssa.Builtin:
		return arg{kind: argConst, v: v}
	}
	s, ok := slots[v]
	if !ok {
		panic(fmt.Sprintf("compileArg: no slot for %T %v", v, v))
	}
	return arg{kind: argSlot, slot: s}
}

// lookupMethod finds the implementation of method m on dynamic type t.
func (p *Program) lookupMethod(t types.Type, m *types.Func) *ssa.Function {
	key := methodKey{t, m.Name(), m.Pkg()}
	if v, ok := p.methods.Load(key); ok {
		return v.(*ssa.Function)
	}
	// canonicalise identical types through a linear scan of cached keys is too slow;
	// rely on go/types pointer identity mostly, falling back to a fresh lookup.
	f := p.Prog.LookupMethod(t, m.Pkg(), m.Name())
	if f != nil {
		p.methods.Store(key, f)
	}
	return f
}

func (p *Program) implements(t types.Type, it *types.Interface) bool {
	key := implKey{t, it}
	if v, ok := p.implMemo.Load(key); ok {
		return v.(bool)
	}
	ok := types.Implements(t, it)
	p.implMemo.Store(key, ok)
	return ok
}

// protoGeneratedNative recognises protoc-gen-go boilerplate methods by shape.
func protoGeneratedNative(fn *ssa.Function) nativeFn {
	sig := fn.Signature
	if sig.Recv() == nil {
		return nil
	}
	rt := sig.Recv().Type()
	if pt, ok := rt.Underlying().(*types.Pointer); ok {
		st, ok := pt.Elem().Underlying().(*types.Struct)
		if !ok || st.NumFields() == 0 || st.Field(0).Name() != "state" || !strings.Contains(st.Field(0).Type().String(), "MessageState") {
			return nil
		}
		elem := pt.Elem()
		switch fn.Name() {
		case "Reset":
			return func(r *Run, g *Goroutine, args []Value) Value {
				p := args[0].(*Value)
				if p == nil {
					r.panicRuntime(g, "invalid memory address or nil pointer dereference")
				}
				*p = zero(elem)
				return nil
			}
		case "String":
			return func(r *Run, g *Goroutine, args []Value) Value { return "<" + elem.String() + ">" }
		case "ProtoMessage":
			return func(r *Run, g *Goroutine, args []Value) Value { return nil }
		case "ProtoReflect":
			return func(r *Run, g *Goroutine, args []Value) Value {
				r.abort("ProtoReflect reached on %v", elem)
				return nil
			}
		}
		return nil
	}
	// enums: named integer types with String() via protoimpl
	if b, ok := rt.Underlying().(*types.Basic); ok && b.Kind() == types.Int32 && fn.Name() == "String" && fn.Pkg != nil {
		for _, blk := range fn.Blocks {
			for _, ins := range blk.Instrs {
				if c, ok := ins.(*ssa.Call); ok {
					if callee := c.Call.StaticCallee(); callee != nil && strings.Contains(callee.String(), "EnumStringOf") {
						return func(r *Run, g *Goroutine, args []Value) Value {
							if v, ok := args[0].(uint64); ok {
								return fmt.Sprintf("%s(%d)", rt.String(), int64(v))
							}
							return rt.String() + "(?)"
						}
					}
				}
			}
		}
	}
	return nil
}

// BlockCov describes one basic block of an interpreted function for the grid-adequacy report.
type BlockCov struct {
	Func  string
	File  string // path relative to the repository
	Line  int
	Block int
	Hit   bool
	// ErrPath: the block returns a non-nil error value or panics (an error/abort path: usually reachable only
	// through a failure of the environment that the models do not produce)
	ErrPath bool
}

// BlockCoverage lists the basic blocks of every compiled (i.e. entered at least once) function and of every
// function declared in one of the files accepted by want, whether entered or not.
func (p *Program) BlockCoverage(want func(file string) bool) []BlockCov {
	var out []BlockCov
	seen := map[*ssa.Function]bool{}
	add := func(fn *ssa.Function, info *fnInfo) {
		if fn == nil || seen[fn] || fn.Blocks == nil {
			return
		}
		seen[fn] = true
		file := trimPath(fn.Prog.Fset.Position(fn.Pos()).Filename)
		for bi, b := range fn.Blocks {
			line := 0
			for _, ins := range b.Instrs {
				if ins.Pos().IsValid() {
					line = fn.Prog.Fset.Position(ins.Pos()).Line
					break
				}
			}
			hit := info != nil && bi < len(info.blocks) && info.blocks[bi].hit != 0
			out = append(out, BlockCov{Func: fn.String(), File: file, Line: line, Block: bi, Hit: hit, ErrPath: isErrPath(b)})
		}
	}
	p.infos.Range(func(k, v any) bool {
		add(k.(*ssa.Function), v.(*fnInfo))
		return true
	})
	for fn := range ssautil.AllFunctions(p.Prog) {
		if fn == nil || fn.Blocks == nil || seen[fn] || !fn.Pos().IsValid() {
			continue
		}
		file := trimPath(fn.Prog.Fset.Position(fn.Pos()).Filename)
		if want(file) {
			add(fn, nil)
		}
	}
	return out
}

func isErrPath(b *ssa.BasicBlock) bool {
	if len(b.Instrs) == 0 {
		return false
	}
	switch last := b.Instrs[len(b.Instrs)-1].(type) {
	case *ssa.Panic:
		return true
	case *ssa.Return:
		for _, res := range last.Results {
			if !types.Identical(res.Type(), errType) {
				continue
			}
			if c, ok := res.(*ssa.Const); ok && c.IsNil() {
				continue
			}
			// a phi / loaded named result may be nil at run time: only count values built in this block
			if ins, ok := res.(ssa.Instruction); ok && ins.Block() == b {
				return true
			}
		}
	case *ssa.Jump:
		// "retErr = ...; goto return block": stores of a fresh error into a named result followed by a jump
		for _, ins := range b.Instrs {
			if st, ok := ins.(*ssa.Store); ok && types.Identical(st.Val.Type(), errType) {
				if c, ok := st.Val.(*ssa.Const); ok && c.IsNil() {
					continue
				}
				if vi, ok := st.Val.(ssa.Instruction); ok && vi.Block() == b && len(b.Instrs) <= 6 {
					return true
				}
			}
		}
	}
	return false
}

var errType = types.Universe.Lookup("error").Type()
