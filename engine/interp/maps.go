package interp

import (
	"fmt"
	"go/types"
	"strings"
	"unicode/utf8"

	"gosym/sym"

	"golang.org/x/tools/go/ssa"
)

// Map keeps entries in insertion order; idx accelerates lookups when every key
// (stored and queried) is concrete.
type Map struct {
	keys   []Value
	vals   []Value
	live   []bool
	n      int
	idx    map[any]int
	hasSym bool
}

func newMap() *Map { return &Map{idx: map[any]int{}} }

// hashKey returns a Go-hashable representation of a concrete key.
func hashKey(v Value) (any, bool) {
	switch v := v.(type) {
	case uint64, string, bool, float64, *Value, *Chan, *Map:
		return v, true
	case *sym.Term:
		return nil, false
	case Iface:
		if v.T == nil {
			return "<nil-iface>", true
		}
		h, ok := hashKey(v.V)
		if !ok {
			return nil, false
		}
		return fmt.Sprintf("I<%s>%v", v.T.String(), h), true
	case Struct:
		var sb strings.Builder
		sb.WriteString("S(")
		for _, f := range v {
			h, ok := hashKey(f)
			if !ok {
				return nil, false
			}
			fmt.Fprintf(&sb, "%T:%v,", h, h)
		}
		sb.WriteString(")")
		return sb.String(), true
	case Array:
		var sb strings.Builder
		sb.WriteString("A(")
		for _, f := range v {
			h, ok := hashKey(f)
			if !ok {
				return nil, false
			}
			fmt.Fprintf(&sb, "%T:%v,", h, h)
		}
		sb.WriteString(")")
		return sb.String(), true
	}
	return nil, false
}

// find returns the index of the entry whose key equals k on this path, or -1.
func (r *Run) mapFind(g *Goroutine, m *Map, k Value) int {
	h, conc := hashKey(k)
	if conc && !m.hasSym {
		if i, ok := m.idx[h]; ok {
			return i
		}
		return -1
	}
	for i := range m.keys {
		if !m.live[i] {
			continue
		}
		eq := r.equalValues(m.keys[i], k)
		switch e := eq.(type) {
		case bool:
			if e {
				return i
			}
		case *sym.Term:
			if r.Branch(e, r.siteOf(g)+" mapkey") {
				return i
			}
		}
	}
	return -1
}

func (r *Run) mapGet(g *Goroutine, m *Map, k Value) (Value, bool) {
	if m == nil {
		return nil, false
	}
	i := r.mapFind(g, m, k)
	if i < 0 {
		return nil, false
	}
	return m.vals[i], true
}

func (r *Run) mapSet(g *Goroutine, m *Map, k, v Value) {
	i := r.mapFind(g, m, k)
	if i >= 0 {
		m.vals[i] = v
		return
	}
	h, conc := hashKey(k)
	m.keys = append(m.keys, k)
	m.vals = append(m.vals, v)
	m.live = append(m.live, true)
	m.n++
	if conc {
		m.idx[h] = len(m.keys) - 1
	} else {
		m.hasSym = true
	}
}

func (r *Run) mapDelete(g *Goroutine, m *Map, k Value) {
	if m == nil {
		return
	}
	i := r.mapFind(g, m, k)
	if i < 0 {
		return
	}
	m.live[i] = false
	m.n--
	if h, conc := hashKey(m.keys[i]); conc {
		delete(m.idx, h)
	}
}

// iter is the state of a range over a map or string.
type iter struct {
	m       *Map
	pos     int
	pending []int // map-order exploration: indices not yet visited
	explore bool
	str     string
	isStr   bool
}

func (r *Run) makeIter(g *Goroutine, x Value) Value {
	switch x := x.(type) {
	case *Map:
		it := &iter{m: x}
		if x != nil && r.mapOrder > 0 && x.n > 1 {
			it.explore = true
			for i := range x.keys {
				if x.live[i] {
					it.pending = append(it.pending, i)
				}
			}
		}
		return it
	case string:
		return &iter{str: x, isStr: true}
	}
	r.abort("range over %T", x)
	return nil
}

func (it *iter) next(r *Run, g *Goroutine) Value {
	if it.isStr {
		if it.pos >= len(it.str) {
			return Tuple{false, uint64(0), uint64(0)}
		}
		i := it.pos
		c, sz := decodeRune(it.str[i:])
		it.pos += sz
		return Tuple{true, uint64(i), uint64(int64(c))}
	}
	m := it.m
	if m == nil {
		return Tuple{false, nil, nil}
	}
	if it.explore {
		// entries deleted during iteration are skipped; entries added are not visited
		var alive []int
		for _, i := range it.pending {
			if m.live[i] {
				alive = append(alive, i)
			}
		}
		it.pending = alive
		if len(alive) == 0 {
			return Tuple{false, nil, nil}
		}
		c := 0
		if len(alive) > 1 {
			c = r.Choose(len(alive), "maporder", r.siteOf(g))
		}
		i := alive[c]
		it.pending = append(alive[:c:c], alive[c+1:]...)
		return Tuple{true, m.keys[i], m.vals[i]}
	}
	for it.pos < len(m.keys) {
		i := it.pos
		it.pos++
		if m.live[i] {
			return Tuple{true, m.keys[i], m.vals[i]}
		}
	}
	return Tuple{false, nil, nil}
}

func decodeRune(s string) (rune, int) {
	return utf8.DecodeRuneInString(s)
}

// ---- builtins -------------------------------------------------------------------

func (r *Run) callBuiltin(g *Goroutine, caller *frame, fn *ssa.Builtin, args []Value) Value {
	switch fn.Name() {
	case "append":
		if len(args) == 1 {
			return args[0]
		}
		s := args[0].(Slice)
		if r.race != nil && caller != nil && !caller.info.noRace {
			if a, ok := args[1].(Slice); ok {
				for i := 0; i < a.Len; i++ {
					r.memEvent(g, &a.Data[i], false)
				}
			}
			if s.Len < s.Cap() {
				r.memEvent(g, &s.Data[s.Len], true)
			}
		}
		var add []Value
		switch a := args[1].(type) {
		case string:
			for i := 0; i < len(a); i++ {
				add = append(add, uint64(a[i]))
			}
		case Slice:
			add = a.Data[:a.Len]
		}
		if len(add) == 0 {
			return s
		}
		n := s.Len + len(add)
		if n <= s.Cap() {
			for i, v := range add {
				s.Data[s.Len+i] = copyVal(v)
			}
			return Slice{Data: s.Data, Len: n}
		}
		newCap := s.Cap() * 2
		if newCap < n {
			newCap = n
		}
		if newCap < 4 {
			newCap = 4
		}
		d := make([]Value, newCap)
		for i := 0; i < s.Len; i++ {
			d[i] = s.Data[i]
		}
		for i, v := range add {
			d[s.Len+i] = copyVal(v)
		}
		// fill the spare capacity with zero values of the element type
		var z Value = uint64(0)
		if et, ok := fn.Type().(*types.Signature); ok && et.Results().Len() == 1 {
			if st, ok := et.Results().At(0).Type().Underlying().(*types.Slice); ok {
				for i := n; i < newCap; i++ {
					d[i] = zero(st.Elem())
				}
				return Slice{Data: d, Len: n}
			}
		}
		for i := n; i < newCap; i++ {
			d[i] = z
		}
		return Slice{Data: d, Len: n}

	case "copy":
		dst := args[0].(Slice)
		n := dst.Len
		if r.race != nil && caller != nil && !caller.info.noRace {
			if src, ok := args[1].(Slice); ok {
				m := n
				if src.Len < m {
					m = src.Len
				}
				for i := 0; i < m; i++ {
					r.memEvent(g, &src.Data[i], false)
					r.memEvent(g, &dst.Data[i], true)
				}
			}
		}
		switch src := args[1].(type) {
		case string:
			if len(src) < n {
				n = len(src)
			}
			for i := 0; i < n; i++ {
				dst.Data[i] = uint64(src[i])
			}
		case Slice:
			if src.Len < n {
				n = src.Len
			}
			if n > 0 {
				// overlapping copies: Go's copy on the shared backing has memmove semantics
				if isAgg(src.Data[0]) {
					tmp := make([]Value, n)
					for i := 0; i < n; i++ {
						tmp[i] = copyVal(src.Data[i])
					}
					copy(dst.Data[:n], tmp)
				} else {
					copy(dst.Data[:n], src.Data[:n])
				}
			}
		}
		return uint64(n)

	case "len":
		switch x := args[0].(type) {
		case string:
			return uint64(len(x))
		case Slice:
			return uint64(x.Len)
		case Array:
			return uint64(len(x))
		case *Value:
			return uint64(len((*x).(Array)))
		case *Map:
			if x == nil {
				return uint64(0)
			}
			return uint64(x.n)
		case *Chan:
			if x == nil {
				return uint64(0)
			}
			return uint64(len(x.buf))
		}
	case "cap":
		switch x := args[0].(type) {
		case Slice:
			return uint64(x.Cap())
		case Array:
			return uint64(len(x))
		case *Value:
			return uint64(len((*x).(Array)))
		case *Chan:
			if x == nil {
				return uint64(0)
			}
			return uint64(x.cap)
		}
	case "delete":
		m, _ := args[0].(*Map)
		r.mapDelete(g, m, args[1])
		return nil
	case "close":
		ch, _ := args[0].(*Chan)
		r.chanClose(g, ch)
		return nil
	case "print", "println":
		return nil
	case "recover":
		return r.doRecover(caller)
	case "min", "max":
		sig := fn.Type().(*types.Signature)
		t := sig.Params().At(0).Type()
		acc := args[0]
		op := "<"
		for _, a := range args[1:] {
			var c Value
			if fn.Name() == "min" {
				c = r.binopLess(g, t, a, acc)
			} else {
				c = r.binopLess(g, t, acc, a)
			}
			_ = op
			switch c := c.(type) {
			case bool:
				if c {
					acc = a
				}
			case *sym.Term:
				k := intKindOf(t)
				acc = simp(r.C.Ite(c, r.term(a, k), r.term(acc, k)), k)
			}
		}
		return acc
	case "clear":
		switch x := args[0].(type) {
		case *Map:
			if x != nil {
				*x = *newMap()
			}
		case Slice:
			// every element becomes the zero value of the element type
			var at types.Type
			if sig, ok := fn.Type().(*types.Signature); ok && sig.Params().Len() > 0 {
				at = sig.Params().At(0).Type()
			}
			if at == nil {
				r.abort("clear(slice): argument type unknown")
			}
			if st, ok := at.Underlying().(*types.Slice); ok {
				for i := 0; i < x.Len; i++ {
					storeInto(&x.Data[i], zero(st.Elem()))
				}
			} else {
				r.abort("clear(slice): element type unknown")
			}
		}
		return nil
	case "ssa:wrapnilchk":
		recv := args[0]
		if p, ok := recv.(*Value); ok && p == nil {
			r.panicRuntime(g, fmt.Sprintf("value method %v.%v called using nil pointer", args[1], args[2]))
		}
		return recv
	}
	r.abort("unsupported builtin %s(%T...)", fn.Name(), args[0])
	return nil
}

func (r *Run) binopLess(g *Goroutine, t types.Type, a, b Value) Value {
	return r.binop(g, tokenLSS, t, t, a, b)
}

func isAgg(v Value) bool {
	switch v.(type) {
	case Struct, Array:
		return true
	}
	return false
}

// doRecover implements recover(): caller is the frame of the deferred function.
func (r *Run) doRecover(caller *frame) Value {
	if caller != nil && !caller.panicking && caller.caller != nil && caller.caller.panicking {
		caller.caller.panicking = false
		p := caller.caller.panicVal
		caller.caller.panicVal = targetPanic{}
		return p.v
	}
	return Iface{}
}
