package interp

import (
	"fmt"
	"go/token"
	"go/types"
	"os"
	"path"
	"path/filepath"
	"sort"
	"strconv"
	"strings"
	"unicode/utf8"

	"gosym/sym"
)

const tokenLSS = token.LSS

var debugOn = os.Getenv("GOSYM_DEBUG") != ""

const rtPkg = "github.com/itchio/wharf/zzverif/rt"
const modelPkg = "github.com/itchio/wharf/zzverif/model"

func str(v Value) string { return v.(string) }

func (r *Run) newSym(label string, w uint8) *sym.Term {
	n := len(r.inputs)
	var name string
	if w == 0 {
		name = fmt.Sprintf("p%d", n)
	} else {
		name = fmt.Sprintf("i%d_w%d", n, w)
	}
	t := r.C.Sym(name, w)
	r.inputs = append(r.inputs, inputSym{label: label, t: t})
	return t
}

// input returns a fresh input of width w: symbolic normally, concrete in
// concrete (translator-validation) mode.
func (r *Run) input(label string, w uint8, k ikind) Value {
	if r.concreteMode {
		n := len(r.inputs)
		r.inputs = append(r.inputs, inputSym{label: label, t: r.C.Const(0, 8)})
		var v uint64
		if n < len(r.concreteIn) {
			v = r.concreteIn[n]
		}
		if w == 0 {
			return v != 0
		}
		return k.norm(v & maskW(w))
	}
	return r.newSym(label, w)
}

// concreteChoice returns the next recorded choice (concrete mode), 0 if out of range.
func (r *Run) concreteChoice(n int) int {
	var v uint64
	if r.chPos < len(r.concreteCh) {
		v = r.concreteCh[r.chPos]
	}
	r.chPos++
	if int(v) >= n || int(v) < 0 {
		return 0
	}
	return int(v)
}

func registerNatives(p *Program) {
	N := p.natives
	rt := func(name string, f nativeFn) { N[rtPkg+"."+name] = f }

	// ---- rt intrinsics -----------------------------------------------------
	rt("Byte", func(r *Run, g *Goroutine, a []Value) Value {
		return r.input(str(a[0]), 8, ikind{8, false})
	})
	rt("Bytes", func(r *Run, g *Goroutine, a []Value) Value {
		n := int(r.concreteInt(g, a[1], types.Typ[types.Int], "rt.Bytes len"))
		d := make([]Value, n)
		for i := range d {
			d[i] = r.input(fmt.Sprintf("%s[%d]", str(a[0]), i), 8, ikind{8, false})
		}
		return Slice{Data: d, Len: n}
	})
	rt("Int64", func(r *Run, g *Goroutine, a []Value) Value {
		return r.input(str(a[0]), 64, ikind{64, true})
	})
	rt("Int32", func(r *Run, g *Goroutine, a []Value) Value {
		return r.input(str(a[0]), 32, ikind{32, true})
	})
	rt("Uint32", func(r *Run, g *Goroutine, a []Value) Value {
		return r.input(str(a[0]), 32, ikind{32, false})
	})
	rt("Bool", func(r *Run, g *Goroutine, a []Value) Value {
		return r.input(str(a[0]), 0, ikind{})
	})
	rt("Int", func(r *Run, g *Goroutine, a []Value) Value {
		// symbolic int in [lo, hi]
		lo, hi := a[1].(uint64), a[2].(uint64)
		v := r.input(str(a[0]), 64, ikind{64, true})
		if t, ok := v.(*sym.Term); ok {
			r.Assume(r.C.And(r.C.Sle(r.C.Const(lo, 64), t), r.C.Sle(t, r.C.Const(hi, 64))))
			return t
		}
		c := int64(v.(uint64))
		if c < int64(lo) {
			c = int64(lo)
		}
		if c > int64(hi) {
			c = int64(hi)
		}
		return uint64(c)
	})
	rt("IntRange", func(r *Run, g *Goroutine, a []Value) Value {
		// concretised choice in [lo, hi]; no solver involved
		lo, hi := int64(a[1].(uint64)), int64(a[2].(uint64))
		if hi < lo {
			r.outcome = "infeasible"
			panic(pathEnd{})
		}
		if r.concreteMode {
			return uint64(lo + int64(r.concreteChoice(int(hi-lo+1))))
		}
		c := r.Choose(int(hi-lo+1), "choice", str(a[0]))
		return uint64(lo + int64(c))
	})
	rt("Choice", func(r *Run, g *Goroutine, a []Value) Value {
		n := int(a[1].(uint64))
		if r.concreteMode {
			return uint64(r.concreteChoice(n))
		}
		return uint64(r.Choose(n, "choice", str(a[0])))
	})
	rt("Param", func(r *Run, g *Goroutine, a []Value) Value {
		v, ok := r.params[str(a[0])]
		if !ok {
			r.abort("missing instance parameter %q", str(a[0]))
		}
		return uint64(int64(v))
	})
	rt("HasParam", func(r *Run, g *Goroutine, a []Value) Value {
		_, ok := r.params[str(a[0])]
		return ok
	})
	rt("Concretize", func(r *Run, g *Goroutine, a []Value) Value {
		switch v := a[0].(type) {
		case uint64:
			return v
		case *sym.Term:
			return ikind{64, true}.norm(r.Concretize(v, r.siteOf(g)))
		}
		return a[0]
	})
	rt("ConcretizeByte", func(r *Run, g *Goroutine, a []Value) Value {
		switch v := a[0].(type) {
		case *sym.Term:
			return r.Concretize(v, r.siteOf(g))
		}
		return a[0]
	})
	rt("Assume", func(r *Run, g *Goroutine, a []Value) Value {
		r.Assume(r.boolTerm(a[0]))
		return nil
	})
	rt("Assert", func(r *Run, g *Goroutine, a []Value) Value {
		r.Assert(g, r.boolTerm(a[0]), "assert", str(a[1]))
		return nil
	})
	rt("Fail", func(r *Run, g *Goroutine, a []Value) Value {
		r.Assert(g, r.C.False, "assert", str(a[0]))
		return nil
	})
	rt("Reach", func(r *Run, g *Goroutine, a []Value) Value {
		r.reached[str(a[0])]++
		if r.concreteMode {
			r.observed = append(r.observed, "reach:"+str(a[0]))
		}
		return nil
	})
	rt("Tag", func(r *Run, g *Goroutine, a []Value) Value {
		r.tags[str(a[0])] = str(a[1])
		return nil
	})
	rt("Observe", func(r *Run, g *Goroutine, a []Value) Value {
		if r.concreteMode {
			r.observed = append(r.observed, "obs:"+str(a[0])+"="+r.formatArgs(g, a[1].(Slice)))
		}
		if debugOn {
			fmt.Fprintf(os.Stderr, "[g%d] OBSERVE %s=%s\n", g.id, str(a[0]), r.formatArgs(g, a[1].(Slice)))
		}
		return nil
	})
	rt("InEngine", func(r *Run, g *Goroutine, a []Value) Value { return true })
	rt("Yield", func(r *Run, g *Goroutine, a []Value) Value {
		r.yield(g, "rt.Yield")
		return nil
	})
	rt("Attach", func(r *Run, g *Goroutine, a []Value) Value {
		k, ok := hashKey(a[0].(Iface).V)
		if !ok {
			r.abort("rt.Attach: unhashable key")
		}
		r.side[attachKey{k}] = a[1]
		return nil
	})
	rt("Attached", func(r *Run, g *Goroutine, a []Value) Value {
		k, ok := hashKey(a[0].(Iface).V)
		if !ok {
			r.abort("rt.Attached: unhashable key")
		}
		if v, ok := r.side[attachKey{k}]; ok {
			return v
		}
		return Iface{}
	})
	rt("BytesEqual", func(r *Run, g *Goroutine, a []Value) Value {
		return r.bytesEqual(a[0].(Slice), a[1].(Slice))
	})
	rt("AtVisibleOp", func(r *Run, g *Goroutine, a []Value) Value {
		n := int(int64(a[0].(uint64)))
		if n <= 0 {
			r.inHook = true
			r.callFunction(g, g.top, a[1], nil)
			r.inHook = false
			return nil
		}
		r.hooks = append(r.hooks, opHook{at: r.visibleOps + n, fn: a[1]})
		return nil
	})
	rt("SchedExplore", func(r *Run, g *Goroutine, a []Value) Value {
		r.schedOff = !a[0].(bool)
		return nil
	})
	rt("Debug", func(r *Run, g *Goroutine, a []Value) Value {
		if debugOn {
			fmt.Fprintf(os.Stderr, "[g%d] %s\n", g.id, str(a[0]))
		}
		return nil
	})
	rt("VisibleOps", func(r *Run, g *Goroutine, a []Value) Value { return uint64(r.visibleOps) })
	rt("SameSymbol", func(r *Run, g *Goroutine, a []Value) Value {
		ta, oka := a[0].(*sym.Term)
		tb, okb := a[1].(*sym.Term)
		if oka && okb {
			return ta == tb
		}
		if !oka && !okb {
			return a[0].(uint64) == a[1].(uint64)
		}
		return false
	})
	rt("MapOrder", func(r *Run, g *Goroutine, a []Value) Value {
		r.mapOrder = int(a[0].(uint64))
		return nil
	})
	rt("IsSymbolic", func(r *Run, g *Goroutine, a []Value) Value {
		return containsSym(a[0].(Iface).V)
	})
	rt("NonTerminationIsViolation", func(r *Run, g *Goroutine, a []Value) Value {
		r.nontermIsViolation = a[0].(bool)
		return nil
	})
	rt("Steps", func(r *Run, g *Goroutine, a []Value) Value { return uint64(r.steps) })
	rt("SetStepBudget", func(r *Run, g *Goroutine, a []Value) Value {
		r.stepBudget = int64(a[0].(uint64))
		return nil
	})
	rt("Ite", func(r *Run, g *Goroutine, a []Value) Value {
		// branch-free select on ints
		switch c := a[0].(type) {
		case bool:
			if c {
				return a[1]
			}
			return a[2]
		case *sym.Term:
			k := ikind{64, true}
			return simp(r.C.Ite(c, r.term(a[1], k), r.term(a[2], k)), k)
		}
		return a[2]
	})
	rt("And", func(r *Run, g *Goroutine, a []Value) Value {
		return simpBool(r.C.And(r.boolTerm(a[0]), r.boolTerm(a[1])))
	})
	rt("Or", func(r *Run, g *Goroutine, a []Value) Value {
		return simpBool(r.C.Or(r.boolTerm(a[0]), r.boolTerm(a[1])))
	})
	rt("Not", func(r *Run, g *Goroutine, a []Value) Value {
		return simpBool(r.C.Not(r.boolTerm(a[0])))
	})
	rt("Implies", func(r *Run, g *Goroutine, a []Value) Value {
		return simpBool(r.C.Or(r.C.Not(r.boolTerm(a[0])), r.boolTerm(a[1])))
	})

	// ---- bytes / strings / misc pure helpers ---------------------------------
	N["bytes.Equal"] = func(r *Run, g *Goroutine, a []Value) Value {
		return r.bytesEqual(a[0].(Slice), a[1].(Slice))
	}
	N["internal/bytealg.Equal"] = N["bytes.Equal"]
	N["internal/bytealg.IndexByte"] = func(r *Run, g *Goroutine, a []Value) Value {
		s := a[0].(Slice)
		c := a[1]
		for i := 0; i < s.Len; i++ {
			eq := r.equalValues(s.Data[i], c)
			switch e := eq.(type) {
			case bool:
				if e {
					return uint64(i)
				}
			case *sym.Term:
				if r.Branch(e, r.siteOf(g)) {
					return uint64(i)
				}
			}
		}
		return uint64(0xFFFFFFFFFFFFFFFF)
	}
	N["internal/bytealg.IndexByteString"] = func(r *Run, g *Goroutine, a []Value) Value {
		c, ok := a[1].(uint64)
		if !ok {
			r.abort("IndexByteString with symbolic byte")
		}
		return uint64(int64(strings.IndexByte(str(a[0]), byte(c))))
	}
	N["internal/bytealg.MakeNoZero"] = func(r *Run, g *Goroutine, a []Value) Value {
		n := int(a[0].(uint64))
		d := make([]Value, n)
		for i := range d {
			d[i] = uint64(0)
		}
		return Slice{Data: d, Len: n}
	}
	N["internal/bytealg.CountString"] = func(r *Run, g *Goroutine, a []Value) Value {
		return uint64(strings.Count(str(a[0]), string([]byte{byte(a[1].(uint64))})))
	}
	N["internal/bytealg.IndexString"] = func(r *Run, g *Goroutine, a []Value) Value {
		return uint64(int64(strings.Index(str(a[0]), str(a[1]))))
	}
	N["internal/stringslite.Index"] = N["internal/bytealg.IndexString"]

	strFn := func(name string, f func(a []Value) Value) {
		N[name] = func(r *Run, g *Goroutine, a []Value) Value { return f(a) }
	}
	u := func(i int) Value { return uint64(int64(i)) }
	strFn("strings.HasPrefix", func(a []Value) Value { return strings.HasPrefix(str(a[0]), str(a[1])) })
	strFn("strings.HasSuffix", func(a []Value) Value { return strings.HasSuffix(str(a[0]), str(a[1])) })
	strFn("strings.Contains", func(a []Value) Value { return strings.Contains(str(a[0]), str(a[1])) })
	strFn("strings.Index", func(a []Value) Value { return u(strings.Index(str(a[0]), str(a[1]))) })
	strFn("strings.LastIndex", func(a []Value) Value { return u(strings.LastIndex(str(a[0]), str(a[1]))) })
	strFn("strings.IndexByte", func(a []Value) Value { return u(strings.IndexByte(str(a[0]), byte(a[1].(uint64)))) })
	strFn("strings.LastIndexByte", func(a []Value) Value { return u(strings.LastIndexByte(str(a[0]), byte(a[1].(uint64)))) })
	strFn("strings.IndexRune", func(a []Value) Value { return u(strings.IndexRune(str(a[0]), rune(a[1].(uint64)))) })
	strFn("strings.TrimPrefix", func(a []Value) Value { return strings.TrimPrefix(str(a[0]), str(a[1])) })
	strFn("strings.TrimSuffix", func(a []Value) Value { return strings.TrimSuffix(str(a[0]), str(a[1])) })
	strFn("strings.TrimSpace", func(a []Value) Value { return strings.TrimSpace(str(a[0])) })
	strFn("strings.Trim", func(a []Value) Value { return strings.Trim(str(a[0]), str(a[1])) })
	strFn("strings.TrimRight", func(a []Value) Value { return strings.TrimRight(str(a[0]), str(a[1])) })
	strFn("strings.TrimLeft", func(a []Value) Value { return strings.TrimLeft(str(a[0]), str(a[1])) })
	strFn("strings.ToLower", func(a []Value) Value { return strings.ToLower(str(a[0])) })
	strFn("strings.ToUpper", func(a []Value) Value { return strings.ToUpper(str(a[0])) })
	strFn("strings.Count", func(a []Value) Value { return u(strings.Count(str(a[0]), str(a[1]))) })
	strFn("strings.Repeat", func(a []Value) Value { return strings.Repeat(str(a[0]), int(a[1].(uint64))) })
	strFn("strings.EqualFold", func(a []Value) Value { return strings.EqualFold(str(a[0]), str(a[1])) })
	strFn("strings.Compare", func(a []Value) Value { return u(strings.Compare(str(a[0]), str(a[1]))) })
	strFn("strings.Replace", func(a []Value) Value {
		return strings.Replace(str(a[0]), str(a[1]), str(a[2]), int(int64(a[3].(uint64))))
	})
	strFn("strings.ReplaceAll", func(a []Value) Value { return strings.ReplaceAll(str(a[0]), str(a[1]), str(a[2])) })
	strFn("strings.Split", func(a []Value) Value { return stringSlice(strings.Split(str(a[0]), str(a[1]))) })
	strFn("strings.SplitN", func(a []Value) Value {
		return stringSlice(strings.SplitN(str(a[0]), str(a[1]), int(int64(a[2].(uint64)))))
	})
	strFn("strings.Fields", func(a []Value) Value { return stringSlice(strings.Fields(str(a[0]))) })
	strFn("strings.Join", func(a []Value) Value {
		s := a[0].(Slice)
		parts := make([]string, s.Len)
		for i := range parts {
			parts[i] = str(s.Data[i])
		}
		return strings.Join(parts, str(a[1]))
	})
	strFn("path/filepath.Join", func(a []Value) Value {
		s := a[0].(Slice)
		parts := make([]string, s.Len)
		for i := range parts {
			parts[i] = str(s.Data[i])
		}
		return filepath.Join(parts...)
	})
	strFn("path.Join", func(a []Value) Value {
		s := a[0].(Slice)
		parts := make([]string, s.Len)
		for i := range parts {
			parts[i] = str(s.Data[i])
		}
		return path.Join(parts...)
	})
	strFn("path/filepath.Dir", func(a []Value) Value { return filepath.Dir(str(a[0])) })
	strFn("path/filepath.Base", func(a []Value) Value { return filepath.Base(str(a[0])) })
	strFn("path/filepath.Ext", func(a []Value) Value { return filepath.Ext(str(a[0])) })
	strFn("path/filepath.Clean", func(a []Value) Value { return filepath.Clean(str(a[0])) })
	strFn("path/filepath.ToSlash", func(a []Value) Value { return filepath.ToSlash(str(a[0])) })
	strFn("path/filepath.FromSlash", func(a []Value) Value { return filepath.FromSlash(str(a[0])) })
	strFn("path/filepath.IsAbs", func(a []Value) Value { return filepath.IsAbs(str(a[0])) })
	strFn("path/filepath.Rel", func(a []Value) Value {
		s, err := filepath.Rel(str(a[0]), str(a[1]))
		if err != nil {
			return Tuple{"", Iface{}} // callers in scope never hit this
		}
		return Tuple{s, Iface{}}
	})
	strFn("path/filepath.Split", func(a []Value) Value {
		d, f := filepath.Split(str(a[0]))
		return Tuple{d, f}
	})
	strFn("path/filepath.VolumeName", func(a []Value) Value { return "" })
	strFn("path.Dir", func(a []Value) Value { return path.Dir(str(a[0])) })
	strFn("path.Base", func(a []Value) Value { return path.Base(str(a[0])) })
	strFn("path.Clean", func(a []Value) Value { return path.Clean(str(a[0])) })
	strFn("path.Ext", func(a []Value) Value { return path.Ext(str(a[0])) })
	strFn("path.IsAbs", func(a []Value) Value { return path.IsAbs(str(a[0])) })
	strFn("strconv.Itoa", func(a []Value) Value { return strconv.Itoa(int(int64(a[0].(uint64)))) })
	strFn("strconv.FormatInt", func(a []Value) Value {
		return strconv.FormatInt(int64(a[0].(uint64)), int(a[1].(uint64)))
	})
	strFn("strconv.Quote", func(a []Value) Value { return strconv.Quote(str(a[0])) })
	strFn("unicode/utf8.ValidString", func(a []Value) Value { return utf8.ValidString(str(a[0])) })
	strFn("unicode/utf8.RuneCountInString", func(a []Value) Value { return u(utf8.RuneCountInString(str(a[0]))) })

	// ---- fmt / errors -----------------------------------------------------------
	N["fmt.Sprintf"] = func(r *Run, g *Goroutine, a []Value) Value {
		return r.sprintf(g, str(a[0]), a[1].(Slice))
	}
	N["fmt.Sprint"] = func(r *Run, g *Goroutine, a []Value) Value {
		return r.formatArgs(g, a[0].(Slice))
	}
	N["fmt.Sprintln"] = func(r *Run, g *Goroutine, a []Value) Value {
		return r.formatArgs(g, a[0].(Slice)) + "\n"
	}
	N["fmt.Errorf"] = func(r *Run, g *Goroutine, a []Value) Value {
		return r.newError(g, r.sprintf(g, str(a[0]), a[1].(Slice)))
	}
	noop := func(r *Run, g *Goroutine, a []Value) Value { return nil }
	N["fmt.Printf"] = func(r *Run, g *Goroutine, a []Value) Value { return Tuple{uint64(0), Iface{}} }
	N["fmt.Println"] = N["fmt.Printf"]
	N["fmt.Print"] = N["fmt.Printf"]
	N["fmt.Fprintf"] = N["fmt.Printf"]
	N["fmt.Fprintln"] = N["fmt.Printf"]
	N["fmt.Fprint"] = N["fmt.Printf"]
	N["log.Printf"] = noop
	N["log.Println"] = noop
	N["log.Print"] = noop
	N["runtime.Callers"] = func(r *Run, g *Goroutine, a []Value) Value { return uint64(0) }
	N["runtime.Gosched"] = func(r *Run, g *Goroutine, a []Value) Value { r.yield(g, "gosched"); return nil }
	N["runtime.GC"] = noop
	N["runtime.KeepAlive"] = noop
	N["runtime.SetFinalizer"] = noop
	N["runtime.NumCPU"] = func(r *Run, g *Goroutine, a []Value) Value { return uint64(r.numCPU()) }
	N["runtime.GOMAXPROCS"] = func(r *Run, g *Goroutine, a []Value) Value { return uint64(r.numCPU()) }
	N["runtime/debug.Stack"] = func(r *Run, g *Goroutine, a []Value) Value { return stringToSlice("<stack>") }
	N["runtime/debug.PrintStack"] = noop
	N["os.Getenv"] = func(r *Run, g *Goroutine, a []Value) Value {
		// the environment is empty, except for switches an instance turns on (EnvParams)
		if prm, ok := EnvParams[str(a[0])]; ok && r.params[prm] == 1 {
			return "1"
		}
		return ""
	}
	N["os.Getpid"] = func(r *Run, g *Goroutine, a []Value) Value { return uint64(4242) }
	N["time.Now"] = func(r *Run, g *Goroutine, a []Value) Value {
		t := p.SSAPkg["time"].Type("Time").Object().Type()
		return zero(t)
	}
	N["time.Since"] = func(r *Run, g *Goroutine, a []Value) Value { return uint64(0) }
	N["(time.Time).Sub"] = func(r *Run, g *Goroutine, a []Value) Value { return uint64(0) }
	N["(time.Duration).Seconds"] = func(r *Run, g *Goroutine, a []Value) Value { return float64(0) }
	N["(time.Duration).String"] = func(r *Run, g *Goroutine, a []Value) Value { return "0s" }
	N["time.Sleep"] = func(r *Run, g *Goroutine, a []Value) Value { r.yield(g, "sleep"); return nil }

	N["errors.Is"] = func(r *Run, g *Goroutine, a []Value) Value {
		return r.errorsIs(g, a[0].(Iface), a[1].(Iface), 0)
	}
	N["errors.As"] = func(r *Run, g *Goroutine, a []Value) Value {
		err := a[0].(Iface)
		tgt := a[1].(Iface)
		tp, ok := tgt.V.(*Value)
		if !ok || tp == nil || tgt.T == nil {
			panic(targetPanic{v: r.runtimeError("errors: target must be a non-nil pointer"), site: r.siteOf(g)})
		}
		want := tgt.T.Underlying().(*types.Pointer).Elem()
		for depth := 0; err.T != nil && depth < 50; depth++ {
			if it, isIface := want.Underlying().(*types.Interface); isIface {
				if r.P.implements(err.T, it) {
					*tp = err
					return true
				}
			} else if types.Identical(err.T, want) {
				*tp = err.V
				return true
			}
			m := r.methodByName(err.T, "Unwrap")
			if m == nil {
				break
			}
			inner, ok := r.callFunction(g, g.top, m, []Value{err.V}).(Iface)
			if !ok {
				break
			}
			err = inner
		}
		return false
	}
	N["internal/reflectlite.TypeOf"] = func(r *Run, g *Goroutine, a []Value) Value {
		r.abort("reflectlite.TypeOf reached (errors.As?)")
		return nil
	}

	// sort.Slice / sort.SliceStable need reflect: implement natively with the interpreted less.
	sortSlice := func(r *Run, g *Goroutine, a []Value) Value {
		s := a[0].(Iface).V.(Slice)
		less := a[1]
		idx := make([]int, s.Len)
		for i := range idx {
			idx[i] = i
		}
		// insertion sort through the target's less(i, j) on the live slice (swap elements in place)
		for i := 1; i < s.Len; i++ {
			for j := i; j > 0; j-- {
				res := r.callFunction(g, g.top, less, []Value{uint64(j), uint64(j - 1)})
				var lt bool
				switch c := res.(type) {
				case bool:
					lt = c
				case *sym.Term:
					lt = r.Branch(c, r.siteOf(g)+" sort.less")
				}
				if !lt {
					break
				}
				s.Data[j], s.Data[j-1] = s.Data[j-1], s.Data[j]
			}
		}
		return nil
	}
	N["sort.Slice"] = sortSlice
	N["sort.SliceStable"] = sortSlice

	// ---- sync -------------------------------------------------------------------
	N["(*sync.Mutex).Lock"] = func(r *Run, g *Goroutine, a []Value) Value { r.mutexLock(g, a[0].(*Value)); return nil }
	N["(*sync.Mutex).Unlock"] = func(r *Run, g *Goroutine, a []Value) Value { r.mutexUnlock(g, a[0].(*Value)); return nil }
	N["(*sync.Mutex).TryLock"] = func(r *Run, g *Goroutine, a []Value) Value {
		m := r.mutex(a[0].(*Value))
		if m.locked || m.readers > 0 {
			return false
		}
		m.locked = true
		return true
	}
	N["(*sync.RWMutex).Lock"] = N["(*sync.Mutex).Lock"]
	N["(*sync.RWMutex).Unlock"] = N["(*sync.Mutex).Unlock"]
	N["(*sync.RWMutex).RLock"] = func(r *Run, g *Goroutine, a []Value) Value { r.mutexRLock(g, a[0].(*Value)); return nil }
	N["(*sync.RWMutex).RUnlock"] = func(r *Run, g *Goroutine, a []Value) Value { r.mutexRUnlock(g, a[0].(*Value)); return nil }
	N["(*sync.WaitGroup).Add"] = func(r *Run, g *Goroutine, a []Value) Value {
		w := r.waitgroup(a[0].(*Value))
		w.n += int64(a[1].(uint64))
		if w.n < 0 {
			panic(targetPanic{v: r.runtimeError("sync: negative WaitGroup counter"), site: r.siteOf(g)})
		}
		r.yield(g, "wg.Add")
		return nil
	}
	N["(*sync.WaitGroup).Done"] = func(r *Run, g *Goroutine, a []Value) Value {
		w := r.waitgroup(a[0].(*Value))
		w.n--
		if w.n < 0 {
			panic(targetPanic{v: r.runtimeError("sync: negative WaitGroup counter"), site: r.siteOf(g)})
		}
		if r.race != nil {
			r.race.wgDone[a[0].(*Value)] = append(r.race.wgDone[a[0].(*Value)], r.syncEvent(g))
		}
		r.yield(g, "wg.Done")
		return nil
	}
	N["(*sync.WaitGroup).Wait"] = func(r *Run, g *Goroutine, a []Value) Value {
		w := r.waitgroup(a[0].(*Value))
		r.yield(g, "wg.Wait")
		for w.n > 0 {
			g.ready = func() bool { return w.n == 0 }
			r.block(g, "waitgroup")
		}
		if r.race != nil {
			we := r.syncEvent(g)
			for _, d := range r.race.wgDone[a[0].(*Value)] {
				r.hb(d, we)
			}
		}
		return nil
	}
	N["(*sync.Once).Do"] = func(r *Run, g *Goroutine, a []Value) Value {
		o := r.once(a[0].(*Value))
		r.yield(g, "once")
		for o.running {
			g.ready = func() bool { return !o.running }
			r.block(g, "once")
		}
		if o.done {
			if r.race != nil {
				if e, ok := r.race.onceEnd[a[0].(*Value)]; ok {
					r.hb(e, r.syncEvent(g))
				}
			}
			return nil
		}
		o.running = true
		defer func() {
			o.running = false
			o.done = true
			if r.race != nil {
				r.race.onceEnd[a[0].(*Value)] = r.syncEvent(g)
			}
		}()
		r.callFunction(g, g.top, a[1], nil)
		return nil
	}

	atomicLoad := func(r *Run, g *Goroutine, a []Value) Value {
		r.yield(g, "atomic")
		r.atomicAccess(g, a[0].(*Value), false)
		return *(a[0].(*Value))
	}
	atomicStore := func(r *Run, g *Goroutine, a []Value) Value {
		r.yield(g, "atomic")
		r.atomicAccess(g, a[0].(*Value), true)
		*(a[0].(*Value)) = a[1]
		return nil
	}
	for _, t := range []string{"Int32", "Int64", "Uint32", "Uint64", "Uintptr", "Pointer"} {
		N["sync/atomic.Load"+t] = atomicLoad
		N["sync/atomic.Store"+t] = atomicStore
	}
	addK := map[string]ikind{"Int32": {32, true}, "Int64": {64, true}, "Uint32": {32, false}, "Uint64": {64, false}}
	for t, k := range addK {
		k := k
		N["sync/atomic.Add"+t] = func(r *Run, g *Goroutine, a []Value) Value {
			r.yield(g, "atomic")
			p := a[0].(*Value)
			r.atomicAccess(g, p, true)
			*p = r.intBinop(g, token.ADD, k, k, *p, a[1])
			return *p
		}
		N["sync/atomic.CompareAndSwap"+t] = func(r *Run, g *Goroutine, a []Value) Value {
			r.yield(g, "atomic")
			p := a[0].(*Value)
			eq := r.equalValues(*p, a[1])
			var b bool
			switch e := eq.(type) {
			case bool:
				b = e
			case *sym.Term:
				b = r.Branch(e, r.siteOf(g))
			}
			if b {
				*p = a[2]
			}
			return b
		}
		// typed atomics: struct{_ noCopy; [_ align64;] v T}
		fieldOf := func(p *Value) *Value {
			s := (*p).(Struct)
			return &s[len(s)-1]
		}
		N["(*sync/atomic."+t+").Load"] = func(r *Run, g *Goroutine, a []Value) Value {
			r.yield(g, "atomic")
			return *fieldOf(a[0].(*Value))
		}
		N["(*sync/atomic."+t+").Store"] = func(r *Run, g *Goroutine, a []Value) Value {
			r.yield(g, "atomic")
			*fieldOf(a[0].(*Value)) = a[1]
			return nil
		}
		N["(*sync/atomic."+t+").Add"] = func(r *Run, g *Goroutine, a []Value) Value {
			r.yield(g, "atomic")
			p := fieldOf(a[0].(*Value))
			*p = r.intBinop(g, token.ADD, k, k, *p, a[1])
			return *p
		}
	}
	N["(*sync/atomic.Bool).Load"] = func(r *Run, g *Goroutine, a []Value) Value {
		r.yield(g, "atomic")
		s := (*a[0].(*Value)).(Struct)
		return s[len(s)-1].(uint64) != 0
	}
	N["(*sync/atomic.Bool).Store"] = func(r *Run, g *Goroutine, a []Value) Value {
		r.yield(g, "atomic")
		s := (*a[0].(*Value)).(Struct)
		if a[1].(bool) {
			s[len(s)-1] = uint64(1)
		} else {
			s[len(s)-1] = uint64(0)
		}
		return nil
	}

	registerModelNatives(p)
}

type attachKey struct{ k any }

func stringSlice(ss []string) Slice {
	d := make([]Value, len(ss))
	for i, s := range ss {
		d[i] = s
	}
	return Slice{Data: d, Len: len(d)}
}

func (r *Run) numCPU() int {
	if v, ok := r.params["numcpu"]; ok {
		return v
	}
	return 4
}

// callerSite gives the site of the frame that called the native (the harness line).
func (r *Run) callerSite(g *Goroutine) string {
	return r.siteOf(g)
}

// bytesEqual builds the (possibly symbolic) equality of two byte slices.
func (r *Run) bytesEqual(x, y Slice) Value {
	if x.Len != y.Len {
		return false
	}
	acc := r.C.True
	for i := 0; i < x.Len; i++ {
		e := r.equalValues(x.Data[i], y.Data[i])
		acc = r.C.And(acc, r.boolTerm(e))
		if acc == r.C.False {
			return false
		}
	}
	return simpBool(acc)
}

// newError creates an *errors.errorString-like error value through the target's errors.New.
func (r *Run) newError(g *Goroutine, msg string) Value {
	fn := r.P.Func("errors", "New")
	return r.callFunction(g, g.top, fn, []Value{msg})
}

func (r *Run) errorsIs(g *Goroutine, err, target Iface, depth int) Value {
	if depth > 50 {
		return false
	}
	if err.T == nil || target.T == nil {
		return err.T == nil && target.T == nil
	}
	if types.Identical(err.T, target.T) && types.Comparable(err.T) {
		if eq, ok := r.equalValues(err.V, target.V).(bool); ok && eq {
			return true
		}
	}
	// Is(error) bool method
	if m := r.methodByName(err.T, "Is"); m != nil {
		res := r.callFunction(g, g.top, m, []Value{err.V, target})
		if b, ok := res.(bool); ok && b {
			return true
		}
	}
	if m := r.methodByName(err.T, "Unwrap"); m != nil {
		res := r.callFunction(g, g.top, m, []Value{err.V})
		if inner, ok := res.(Iface); ok {
			return r.errorsIs(g, inner, target, depth+1)
		}
	}
	return false
}

func (r *Run) methodByName(t types.Type, name string) *ssaFunction {
	ms := r.P.Prog.MethodSets.MethodSet(t)
	for i := 0; i < ms.Len(); i++ {
		sel := ms.At(i)
		if sel.Obj().Name() == name {
			return r.P.Prog.MethodValue(sel)
		}
	}
	return nil
}

// formatOne renders one interface-boxed argument.
func (r *Run) formatOne(g *Goroutine, v Value, verb byte) string {
	iv, ok := v.(Iface)
	if !ok {
		return describe(v)
	}
	if iv.T == nil {
		return "<nil>"
	}
	if verb != 'd' && verb != 'x' && verb != 'T' {
		if m := r.methodByName(iv.T, "Error"); m != nil && g != nil {
			if p, isPtr := iv.V.(*Value); !isPtr || p != nil {
				if s, ok := r.callFunction(g, g.top, m, []Value{iv.V}).(string); ok {
					return s
				}
			}
		} else if m := r.methodByName(iv.T, "String"); m != nil && g != nil {
			if p, isPtr := iv.V.(*Value); !isPtr || p != nil {
				if s, ok := r.callFunction(g, g.top, m, []Value{iv.V}).(string); ok {
					return s
				}
			}
		}
	}
	if verb == 'T' {
		return iv.T.String()
	}
	switch x := iv.V.(type) {
	case uint64:
		k := intKindOf(iv.T)
		if verb == 'x' {
			return strconv.FormatUint(x&maskW(k.w), 16)
		}
		if k.signed {
			return strconv.FormatInt(int64(x), 10)
		}
		return strconv.FormatUint(x, 10)
	case string:
		if verb == 'q' {
			return strconv.Quote(x)
		}
		return x
	case bool:
		return strconv.FormatBool(x)
	case float64:
		return strconv.FormatFloat(x, 'g', -1, 64)
	case *sym.Term:
		return "<sym>"
	case Slice:
		if b, ok := concreteBytes(x); ok && isByteSlice(iv.T) {
			if verb == 's' {
				return string(b)
			}
			return fmt.Sprint(b)
		}
		return "<slice>"
	}
	return "<" + iv.T.String() + ">"
}

func isByteSlice(t types.Type) bool {
	s, ok := t.Underlying().(*types.Slice)
	if !ok {
		return false
	}
	b, ok := s.Elem().Underlying().(*types.Basic)
	return ok && b.Kind() == types.Uint8
}

func (r *Run) formatArgs(g *Goroutine, args Slice) string {
	var parts []string
	for i := 0; i < args.Len; i++ {
		parts = append(parts, r.formatOne(g, args.Data[i], 'v'))
	}
	return strings.Join(parts, " ")
}

// sprintf is a small fmt.Sprintf: flags and widths are accepted for %d/%s/%v/%x/%q.
func (r *Run) sprintf(g *Goroutine, format string, args Slice) string {
	var sb strings.Builder
	ai := 0
	for i := 0; i < len(format); i++ {
		c := format[i]
		if c != '%' {
			sb.WriteByte(c)
			continue
		}
		i++
		if i >= len(format) {
			break
		}
		if format[i] == '%' {
			sb.WriteByte('%')
			continue
		}
		// flags / width / precision
		start := i
		for i < len(format) && strings.IndexByte("+-# 0123456789.", format[i]) >= 0 {
			i++
		}
		if i >= len(format) {
			break
		}
		spec := format[start:i]
		verb := format[i]
		if ai >= args.Len {
			sb.WriteString("%!" + string(verb) + "(MISSING)")
			continue
		}
		s := r.formatOne(g, args.Data[ai], verb)
		ai++
		// width handling for the common numeric zero-pad case
		if spec != "" {
			zeroPad := strings.HasPrefix(spec, "0")
			left := strings.HasPrefix(spec, "-")
			ws := strings.TrimLeft(spec, "+-# 0")
			if j := strings.IndexByte(ws, '.'); j >= 0 {
				ws = ws[:j]
			}
			if w, err := strconv.Atoi(ws); err == nil && len(s) < w {
				pad := strings.Repeat(" ", w-len(s))
				if zeroPad {
					pad = strings.Repeat("0", w-len(s))
				}
				if left {
					s = s + strings.Repeat(" ", w-len(s))
				} else {
					s = pad + s
				}
			}
		}
		sb.WriteString(s)
	}
	return sb.String()
}

var _ = sort.Ints

// EnvParams maps environment variables read by the code under test to the instance parameter that sets them
// to "1" (the native replay exports the same variable).
var EnvParams = map[string]string{
	"BOWL_DEBUG_BROKEN_RENAME": "brokenrename", // wharf's own switch: every rename fails, the bowl falls back to copy + remove
}
