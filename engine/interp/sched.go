package interp

import (
	"fmt"
	"go/types"

	"golang.org/x/tools/go/ssa"
)

// Goroutine is one target goroutine; it runs on its own Go goroutine but only
// while it holds the baton (r.cur == g).
type Goroutine struct {
	id    int
	r     *Run
	name  string
	wake  chan struct{}
	top   *frame
	depth int
	done  bool

	forkEv    int
	blocked   bool
	waitOps   []*waitOp
	ready     func() bool
	fired     *waitOp
	blockedOn string
}

type opHook struct {
	at    int
	fn    Value
	fired bool
}

type waitOp struct {
	beginEv int // race query: begin event of the blocked operation
	peerEv  int // event of the partner that completed it
	g       *Goroutine
	ch      *Chan
	send    bool
	val     Value
	idx     int
	ok      bool
	closed  bool // woken by close
}

type Chan struct {
	bufEv   []int // race query: begin events of the sends whose values sit in buf
	closeEv int
	id      int
	cap     int
	buf     []Value
	closed  bool
	recvq   []*waitOp
	sendq   []*waitOp
	zero    Value
}

func (r *Run) newChan(n int, elem types.Type) *Chan {
	r.chanCount++
	var z Value
	if elem != nil {
		z = zero(elem)
	}
	return &Chan{id: r.chanCount, cap: n, zero: z, closeEv: -1}
}

func (r *Run) deterministic() bool { return r.W.Lim.Preemptions < 0 || r.schedOff }

// spawn starts a new target goroutine; it becomes runnable but does not run
// until scheduled.
func (r *Run) spawn(parent *Goroutine, fn Value, args []Value, site string) {
	g := &Goroutine{id: len(r.gs), r: r, wake: make(chan struct{}, 1), name: site, forkEv: -1}
	if r.race != nil {
		g.forkEv = r.syncEvent(parent)
	}
	r.gs = append(r.gs, g)
	r.wg.Add(1)
	go func() {
		defer r.wg.Done()
		<-g.wake
		if r.dead {
			g.done = true
			return
		}
		defer func() {
			e := recover()
			g.done = true
			switch e := e.(type) {
			case nil, killed:
				return
			case pathEnd:
				// a non-main goroutine ended the run
			case abortRun:
				if r.outcome == "" {
					r.outcome = "inconclusive"
					r.inconc = e.reason
				}
			case targetPanic:
				// unrecovered panic in a goroutine kills the process
				if r.outcome == "" {
					r.reportPanic(g, e, "goroutine-panic")
				}
			default:
				if r.outcome == "" {
					r.outcome = "inconclusive"
					r.inconc = fmt.Sprintf("engine error in goroutine: %v\n%s", e, engineStack())
				}
			}
			r.handoffToMainForEnd()
		}()
		if r.race != nil {
			r.hb(g.forkEv, r.syncEvent(g))
		}
		r.callFunction(g, nil, fn, args)
		g.done = true
		r.exitGoroutine(g)
	}()
	r.yield(parent, "go")
}

// handoffToMainForEnd makes the main goroutine unwind; the caller's Go goroutine then returns.
func (r *Run) handoffToMainForEnd() {
	r.dead = true
	r.mainMustEnd = true
	select {
	case r.main.wake <- struct{}{}:
	default:
	}
}

func (r *Run) runnable(g *Goroutine) bool {
	if g.done {
		return false
	}
	if !g.blocked {
		return true
	}
	return g.ready != nil && g.ready()
}

func (r *Run) otherRunnable(self *Goroutine) []*Goroutine {
	var out []*Goroutine
	n := len(r.gs)
	// the order defines the default (undelayed) choice; instance parameter "policy":
	// 0 round-robin after the current goroutine, 1 youngest goroutine first, 2 oldest first
	switch r.params["policy"] {
	case 1:
		for i := n - 1; i >= 0; i-- {
			if g := r.gs[i]; g != self && r.runnable(g) {
				out = append(out, g)
			}
		}
	case 2:
		for i := 0; i < n; i++ {
			if g := r.gs[i]; g != self && r.runnable(g) {
				out = append(out, g)
			}
		}
	default:
		start := 0
		if self != nil {
			start = self.id + 1
		}
		for i := 0; i < n; i++ {
			g := r.gs[(start+i)%n]
			if g != self && r.runnable(g) {
				out = append(out, g)
			}
		}
	}
	return out
}

// switchTo passes the baton from 'from' to 'to' and parks 'from' until it is
// scheduled again. If from is nil (exiting goroutine) it does not park.
func (r *Run) switchTo(from, to *Goroutine) {
	r.cur = to
	r.switches++
	to.wake <- struct{}{}
	if from == nil {
		return
	}
	r.park(from)
}

func (r *Run) park(g *Goroutine) {
	<-g.wake
	if r.dead {
		if g == r.main {
			if r.outcome == "" {
				r.outcome = "inconclusive"
				r.inconc = "run ended while main goroutine parked"
			}
			panic(pathEnd{})
		}
		panic(killed{})
	}
}

// yield is a visible operation: the scheduler may preempt g here.
func (r *Run) yield(g *Goroutine, what string) {
	if g != nil && len(r.hooks) > 0 && !r.inHook {
		r.visibleOps++
		for i := range r.hooks {
			h := &r.hooks[i]
			if !h.fired && h.at == r.visibleOps {
				h.fired = true
				r.inHook = true
				r.callFunction(g, g.top, h.fn, nil)
				r.inHook = false
			}
		}
	}
	if g == nil || len(r.gs) == 1 {
		return
	}
	lim := r.W.Lim.Preemptions
	if lim < 0 || r.preempt >= lim || r.schedOff {
		return
	}
	others := r.otherRunnable(g)
	if len(others) == 0 {
		return
	}
	c := r.Choose(1+len(others), "sched", what)
	if c == 0 {
		return
	}
	r.preempt++
	r.switchTo(g, others[c-1])
}

// block parks g until it becomes runnable again (made so by a partner or by its ready func).
func (r *Run) block(g *Goroutine, why string) {
	g.blocked = true
	g.blockedOn = why
	for {
		others := r.otherRunnable(g)
		if len(others) == 0 {
			if g.ready != nil && g.ready() {
				break
			}
			r.deadlock(g)
		}
		next := r.pickNext(others, "block:"+why)
		r.switchTo(g, next)
		if !g.blocked || (g.ready != nil && g.ready()) {
			break
		}
	}
	g.blocked = false
	g.ready = nil
	g.blockedOn = ""
}

func (r *Run) exitGoroutine(g *Goroutine) {
	others := r.otherRunnable(g)
	if len(others) == 0 {
		if r.main.done {
			return
		}
		// everyone else is blocked: deadlock (main is blocked, too)
		r.deadlockFromExit(g)
		return
	}
	next := r.pickNext(others, "exit")
	r.switchTo(nil, next)
}

// pickNext chooses who runs when the current goroutine cannot continue. The
// default is the first runnable goroutine in round-robin order; deviating from
// it costs one unit of the delay/preemption budget (delay-bounded scheduling).
func (r *Run) pickNext(others []*Goroutine, what string) *Goroutine {
	lim := r.W.Lim.Preemptions
	if lim < 0 || len(others) == 1 || r.preempt >= lim || r.schedOff {
		return others[0]
	}
	c := r.Choose(len(others), "sched", what)
	if c != 0 {
		r.preempt++
	}
	return others[c]
}

func (r *Run) describeBlocked() string {
	s := ""
	for _, g := range r.gs {
		if !g.done {
			where := "?"
			if g.top != nil {
				where = g.top.fn.String() + " " + g.top.site()
			}
			s += fmt.Sprintf("[g%d %s blocked on %s at %s] ", g.id, g.name, g.blockedOn, where)
		}
	}
	return s
}

func (r *Run) deadlock(g *Goroutine) {
	desc := r.describeBlocked()
	if r.outcome == "" {
		r.violate(g, "deadlock", "all goroutines are blocked: "+desc, r.currentModelOrSolveSafe())
	}
	r.endRunFrom(g)
}

func (r *Run) deadlockFromExit(g *Goroutine) {
	desc := r.describeBlocked()
	if r.outcome == "" {
		v := &Violation{Kind: "deadlock", Label: "all goroutines are blocked: " + desc, Site: "goroutine exit", Tags: map[string]string{}}
		for k, x := range r.tags {
			v.Tags[k] = x
		}
		m := r.currentModelOrSolveSafe()
		for _, in := range r.inputs {
			v.Inputs = append(v.Inputs, InputVal{Label: in.label, Name: in.t.Name, Width: int(in.t.W), Value: m[in.t.Name]})
		}
		v.Choices = append(v.Choices, r.choices...)
		r.violation = v
		r.outcome = "violation"
	}
	r.handoffToMainForEnd()
}

// ---- channels -----------------------------------------------------------------

func (g *Goroutine) dequeueAll() {
	for _, op := range g.waitOps {
		ch := op.ch
		if op.send {
			ch.sendq = removeOp(ch.sendq, op)
		} else {
			ch.recvq = removeOp(ch.recvq, op)
		}
	}
	g.waitOps = nil
}

func removeOp(q []*waitOp, op *waitOp) []*waitOp {
	for i, x := range q {
		if x == op {
			return append(q[:i:i], q[i+1:]...)
		}
	}
	return q
}

func (r *Run) fire(op *waitOp) {
	g := op.g
	g.fired = op
	g.dequeueAll()
	g.blocked = false
}

func (r *Run) sendReady(ch *Chan) bool {
	return ch != nil && (ch.closed || len(ch.recvq) > 0 || len(ch.buf) < ch.cap)
}

func (r *Run) recvReady(ch *Chan) bool {
	return ch != nil && (len(ch.buf) > 0 || len(ch.sendq) > 0 || ch.closed)
}

// doSend performs a send that is known to be ready.
func (r *Run) doSend(g *Goroutine, ch *Chan, v Value) {
	if ch.closed {
		r.panicRuntime(g, "send on closed channel")
	}
	sb := -1
	if r.race != nil {
		sb = r.syncEvent(g)
	}
	if len(ch.recvq) > 0 {
		op := ch.recvq[0]
		op.val, op.ok = v, true
		op.peerEv = sb
		if r.race != nil {
			// the waiting receive began before this send completes
			r.hb(op.beginEv, r.syncEvent(g))
		}
		r.fire(op)
		return
	}
	ch.buf = append(ch.buf, v)
	ch.bufEv = append(ch.bufEv, sb)
}

// doRecv performs a receive that is known to be ready.
func (r *Run) doRecv(g *Goroutine, ch *Chan) (Value, bool) {
	rb, re := -1, -1
	if r.race != nil {
		rb = r.syncEvent(g)
	}
	if len(ch.buf) > 0 {
		v := ch.buf[0]
		ch.buf = ch.buf[1:]
		if r.race != nil {
			re = r.syncEvent(g)
			if len(ch.bufEv) > 0 {
				r.hb(ch.bufEv[0], re)
				ch.bufEv = ch.bufEv[1:]
			}
		}
		if len(ch.sendq) > 0 {
			op := ch.sendq[0]
			ch.buf = append(ch.buf, op.val)
			ch.bufEv = append(ch.bufEv, op.beginEv)
			op.peerEv = re // capacity: this receive precedes the completion of the blocked send
			r.fire(op)
		}
		return v, true
	}
	if len(ch.sendq) > 0 {
		op := ch.sendq[0]
		v := op.val
		if r.race != nil {
			re = r.syncEvent(g)
			r.hb(op.beginEv, re)
		}
		op.peerEv = rb
		r.fire(op)
		return v, true
	}
	// closed
	if r.race != nil {
		r.hb(ch.closeEv, r.syncEvent(g))
	}
	return copyVal(ch.zero), false
}

func (r *Run) chanSend(g *Goroutine, ch *Chan, v Value) {
	r.yield(g, "send")
	if ch == nil {
		g.waitOps = nil
		r.block(g, "send on nil channel")
		return
	}
	if r.sendReady(ch) {
		r.doSend(g, ch, v)
		return
	}
	op := &waitOp{g: g, ch: ch, send: true, val: v, beginEv: -1, peerEv: -1}
	if r.race != nil {
		op.beginEv = r.syncEvent(g)
	}
	ch.sendq = append(ch.sendq, op)
	g.waitOps = []*waitOp{op}
	g.fired = nil
	r.block(g, fmt.Sprintf("chan send #%d", ch.id))
	if r.race != nil && g.fired != nil {
		r.hb(g.fired.peerEv, r.syncEvent(g))
	}
	if g.fired != nil && g.fired.closed {
		r.panicRuntime(g, "send on closed channel")
	}
}

func (r *Run) chanRecv(g *Goroutine, ch *Chan) (Value, bool) {
	r.yield(g, "recv")
	if ch == nil {
		g.waitOps = nil
		r.block(g, "receive from nil channel")
		return nil, false
	}
	if r.recvReady(ch) {
		return r.doRecv(g, ch)
	}
	op := &waitOp{g: g, ch: ch, beginEv: -1, peerEv: -1}
	if r.race != nil {
		op.beginEv = r.syncEvent(g)
	}
	ch.recvq = append(ch.recvq, op)
	g.waitOps = []*waitOp{op}
	g.fired = nil
	r.block(g, fmt.Sprintf("chan receive #%d", ch.id))
	if g.fired == nil {
		r.abort("receiver woken without a fired op")
	}
	if r.race != nil {
		r.hb(g.fired.peerEv, r.syncEvent(g))
	}
	return g.fired.val, g.fired.ok
}

func (r *Run) chanClose(g *Goroutine, ch *Chan) {
	r.yield(g, "close")
	if ch == nil {
		r.panicRuntime(g, "close of nil channel")
	}
	if ch.closed {
		r.panicRuntime(g, "close of closed channel")
	}
	ch.closed = true
	if r.race != nil {
		ch.closeEv = r.syncEvent(g)
	}
	for len(ch.recvq) > 0 {
		op := ch.recvq[0]
		op.val, op.ok = copyVal(ch.zero), false
		op.peerEv = ch.closeEv
		r.fire(op)
	}
	for len(ch.sendq) > 0 {
		op := ch.sendq[0]
		op.closed = true
		r.fire(op)
	}
}

func (r *Run) doSelect(g *Goroutine, fr *frame, ins *ssa.Select, ci *cinstr) Value {
	r.yield(g, "select")
	n := len(ins.States)
	chans := make([]*Chan, n)
	vals := make([]Value, n)
	for i, st := range ins.States {
		chans[i], _ = fr.get(&ci.args[2*i]).(*Chan)
		if st.Dir == types.SendOnly {
			vals[i] = fr.get(&ci.args[2*i+1])
		}
	}
	var ready []int
	for i, st := range ins.States {
		if st.Dir == types.SendOnly {
			if r.sendReady(chans[i]) {
				ready = append(ready, i)
			}
		} else if r.recvReady(chans[i]) {
			ready = append(ready, i)
		}
	}
	result := func(idx int, recvOK bool, recvVal Value, recvIdx int) Value {
		t := Tuple{uint64(int64(idx)), recvOK}
		for i, st := range ins.States {
			if st.Dir == types.RecvOnly {
				var v Value
				if i == recvIdx {
					v = recvVal
				} else {
					v = zero(st.Chan.Type().Underlying().(*types.Chan).Elem())
				}
				t = append(t, v)
			}
		}
		return t
	}
	if len(ready) > 0 {
		pick := ready[0]
		if len(ready) > 1 && !r.deterministic() {
			pick = ready[r.Choose(len(ready), "select", fr.site())]
		}
		if ins.States[pick].Dir == types.SendOnly {
			r.doSend(g, chans[pick], vals[pick])
			return result(pick, false, nil, -1)
		}
		v, ok := r.doRecv(g, chans[pick])
		return result(pick, ok, v, pick)
	}
	if !ins.Blocking {
		return result(-1, false, nil, -1)
	}
	g.waitOps = nil
	g.fired = nil
	selBegin := -1
	for i, st := range ins.States {
		if chans[i] == nil {
			continue
		}
		op := &waitOp{g: g, ch: chans[i], send: st.Dir == types.SendOnly, val: vals[i], idx: i, beginEv: -1, peerEv: -1}
		if r.race != nil {
			if selBegin < 0 {
				selBegin = r.syncEvent(g)
			}
			op.beginEv = selBegin
		}
		if op.send {
			chans[i].sendq = append(chans[i].sendq, op)
		} else {
			chans[i].recvq = append(chans[i].recvq, op)
		}
		g.waitOps = append(g.waitOps, op)
	}
	r.block(g, "select")
	op := g.fired
	if op == nil {
		r.abort("select woken without a fired op")
	}
	if r.race != nil {
		r.hb(op.peerEv, r.syncEvent(g))
	}
	if op.send {
		if op.closed {
			r.panicRuntime(g, "send on closed channel")
		}
		return result(op.idx, false, nil, -1)
	}
	return result(op.idx, op.ok, op.val, op.idx)
}

// ---- sync primitives (state in r.side keyed by the address of the object) -----

type mutexState struct {
	locked  bool
	readers int
}

func (r *Run) mutex(p *Value) *mutexState {
	if s, ok := r.side[p]; ok {
		return s.(*mutexState)
	}
	s := &mutexState{}
	r.side[p] = s
	return s
}

func (r *Run) mutexLock(g *Goroutine, p *Value) {
	r.yield(g, "lock")
	m := r.mutex(p)
	for m.locked || m.readers > 0 {
		g.ready = func() bool { return !m.locked && m.readers == 0 }
		r.block(g, "mutex")
	}
	m.locked = true
	r.lockAcquired(g, p)
}

func (r *Run) mutexUnlock(g *Goroutine, p *Value) {
	m := r.mutex(p)
	if !m.locked {
		panic(targetPanic{v: r.runtimeError("sync: unlock of unlocked mutex"), site: r.siteOf(g)})
	}
	r.lockReleased(g, p)
	m.locked = false
	r.yield(g, "unlock")
}

func (r *Run) mutexRLock(g *Goroutine, p *Value) {
	r.yield(g, "rlock")
	m := r.mutex(p)
	for m.locked {
		g.ready = func() bool { return !m.locked }
		r.block(g, "rwmutex")
	}
	m.readers++
	r.lockAcquired(g, p)
}

func (r *Run) mutexRUnlock(g *Goroutine, p *Value) {
	m := r.mutex(p)
	if m.readers <= 0 {
		panic(targetPanic{v: r.runtimeError("sync: RUnlock of unlocked RWMutex"), site: r.siteOf(g)})
	}
	r.lockReleased(g, p)
	m.readers--
	r.yield(g, "runlock")
}

type wgState struct{ n int64 }

func (r *Run) waitgroup(p *Value) *wgState {
	if s, ok := r.side[p]; ok {
		return s.(*wgState)
	}
	s := &wgState{}
	r.side[p] = s
	return s
}

type onceState struct {
	done    bool
	running bool
}

func (r *Run) once(p *Value) *onceState {
	if s, ok := r.side[p]; ok {
		return s.(*onceState)
	}
	s := &onceState{}
	r.side[p] = s
	return s
}
