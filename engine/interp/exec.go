package interp

import (
	"fmt"
	"go/token"
	"go/types"
	"os"
	"runtime/debug"
	"strings"

	"gosym/sym"

	"golang.org/x/tools/go/ssa"
)

type ssaFunction = ssa.Function

// targetPanic is a panic of the target program travelling up the engine's Go stack.
type targetPanic struct {
	v     Value
	site  string
	fn    string
	trace []string
}

type deferred struct {
	fn   Value
	args []Value
	pos  string
}

type frame struct {
	g         *Goroutine
	caller    *frame
	fn        *ssa.Function
	info      *fnInfo
	regs      []Value
	block     *ssa.BasicBlock
	prev      *ssa.BasicBlock
	defers    []*deferred
	result    Value
	panicking bool
	panicVal  targetPanic
	curIns    ssa.Instruction
	callPos   token.Pos
}

func engineStack() string {
	s := string(debug.Stack())
	lines := strings.Split(s, "\n")
	if len(lines) > 40 {
		lines = lines[:40]
	}
	return strings.Join(lines, "\n")
}

func (fr *frame) get(a *arg) Value {
	switch a.kind {
	case argSlot:
		return fr.regs[a.slot]
	case argConst:
		return a.v
	case argGlobal:
		return fr.g.r.globalAddr(a.g)
	}
	return nil
}

// siteOf gives "file:line" of the instruction being executed by g.
func (r *Run) siteOf(g *Goroutine) string {
	if g == nil || g.top == nil {
		return "?"
	}
	return g.top.site()
}

func (fr *frame) site() string {
	pos := token.NoPos
	if fr.curIns != nil {
		pos = fr.curIns.Pos()
		if pos == token.NoPos {
			// nearest earlier instruction with a position, in the same block
			b := fr.curIns.Block()
			if b != nil {
				found := false
				for i := len(b.Instrs) - 1; i >= 0; i-- {
					if b.Instrs[i] == fr.curIns {
						found = true
						continue
					}
					if found && b.Instrs[i].Pos() != token.NoPos {
						pos = b.Instrs[i].Pos()
						break
					}
				}
			}
		}
	}
	if pos == token.NoPos {
		pos = fr.fn.Pos()
	}
	if pos == token.NoPos {
		return fr.fn.String()
	}
	p := fr.fn.Prog.Fset.Position(pos)
	return fmt.Sprintf("%s:%d", trimPath(p.Filename), p.Line)
}

// RepoPrefix is stripped from source positions.
var RepoPrefix = "/repo/"

func trimPath(f string) string {
	if i := strings.Index(f, "/pkg/mod/"); i >= 0 {
		return f[i+9:]
	}
	if strings.HasPrefix(f, RepoPrefix) {
		return f[len(RepoPrefix):]
	}
	if i := strings.Index(f, "/src/"); i >= 0 && strings.Contains(f, "go") {
		return f[i+5:]
	}
	return f
}

func (g *Goroutine) stackTrace(max int) []string {
	var out []string
	for fr := g.top; fr != nil && len(out) < max; fr = fr.caller {
		out = append(out, fr.fn.String()+" "+fr.site())
	}
	return out
}

// runtimeError builds the interface value of a runtime.Error with the given text.
func (r *Run) runtimeError(msg string) Value {
	return Iface{T: r.P.runtimeErrorString, V: msg}
}

func (r *Run) panicRuntime(g *Goroutine, msg string) {
	tp := targetPanic{v: r.runtimeError(msg)}
	if g != nil && g.top != nil {
		tp.site = g.top.site()
		tp.fn = g.top.fn.String()
		tp.trace = g.stackTrace(12)
	}
	panic(tp)
}

// callFunction calls any function value.
func (r *Run) callFunction(g *Goroutine, caller *frame, fn Value, args []Value) Value {
	switch fn := fn.(type) {
	case *ssa.Function:
		if fn == nil {
			r.panicRuntime(g, "invalid memory address or nil pointer dereference (call of nil func)")
		}
		return r.callSSA(g, caller, fn, args, nil)
	case *Closure:
		if fn == nil {
			r.panicRuntime(g, "invalid memory address or nil pointer dereference (call of nil func)")
		}
		return r.callSSA(g, caller, fn.Fn, args, fn.Env)
	case *ssa.Builtin:
		return r.callBuiltin(g, caller, fn, args)
	case *Native:
		return fn.Fn(g, args)
	}
	r.abort("cannot call %T", fn)
	return nil
}

func (r *Run) callSSA(g *Goroutine, caller *frame, fn *ssa.Function, args []Value, env []Value) Value {
	info := r.P.info(fn)
	if info.native != nil {
		return info.native(r, g, args)
	}
	if info.repl != nil {
		fn = info.repl
		info = r.P.info(fn)
	}
	if info.err != "" {
		r.abort("unsupported call: %s (%s)", fn.String(), info.err)
	}
	if fn.Synthetic == "package initializer" && r.wantInit != fn {
		// dependencies are initialised on demand - except plug-in packages that exist only for their init
		// (blank imports: wharf's compressor / decompressor adapters register themselves there)
		if fn.Pkg != nil && eagerInit(fn.Pkg.Pkg.Path()) {
			r.initPackage(g, fn.Pkg)
		}
		return nil
	}
	if fn.Pkg != nil && !r.inited[fn.Pkg] {
		r.initPackage(g, fn.Pkg)
	}
	if len(r.funcs) < 4000 {
		r.funcs[info.name] = true
	}
	fr := &frame{g: g, caller: caller, fn: fn, info: info}
	fr.regs = make([]Value, info.nslots)
	copy(fr.regs, args)
	copy(fr.regs[len(fn.Params):], env)
	fr.block = fn.Blocks[0]
	g.depth++
	if g.depth > 2000 {
		r.abort("call depth exceeded in %s", fn.String())
	}
	saved := g.top
	g.top = fr
	for fr.block != nil {
		r.runFrame(fr)
	}
	g.top = saved
	g.depth--
	return fr.result
}

func (r *Run) runFrame(fr *frame) {
	defer func() {
		if fr.block == nil {
			return // normal return
		}
		e := recover()
		tp, ok := e.(targetPanic)
		if !ok {
			switch e.(type) {
			case abortRun, pathEnd, killed:
				panic(e) // engine-level unwinding: do not run target defers
			}
			// a bug in the engine (or an unsupported shape): keep the origin
			st := string(debug.Stack())
			if i := strings.Index(st, "panic("); i >= 0 {
				st = st[i:]
			}
			lines := strings.Split(st, "\n")
			if len(lines) > 14 {
				lines = lines[:14]
			}
			fr.g.top = fr
			panic(abortRun{fmt.Sprintf("engine error: %v @ %s in %s\ntarget stack: %s\n%s", e, fr.site(), fr.fn, strings.Join(fr.g.stackTrace(10), " <- "), strings.Join(lines, "\n"))})
		}
		if tp.site == "" {
			tp.site = fr.site()
			tp.fn = fr.fn.String()
			tp.trace = fr.g.stackTrace(12)
		}
		fr.panicking = true
		fr.panicVal = tp
		fr.g.top = fr
		fr.runDefers()
		// recovered: continue at the Recover block (or return zero results)
		fr.block = fr.fn.Recover
		if fr.block == nil {
			fr.result = zeroResult(fr.fn)
		}
	}()
	r.execBlocks(fr)
}

func zeroResult(fn *ssa.Function) Value {
	res := fn.Signature.Results()
	switch res.Len() {
	case 0:
		return nil
	case 1:
		return zero(res.At(0).Type())
	}
	return zero(res)
}

// runDefers runs the deferred calls; if the frame is panicking and no deferred
// call recovers, the panic continues.
func (fr *frame) runDefers() {
	r := fr.g.r
	for len(fr.defers) > 0 {
		d := fr.defers[len(fr.defers)-1]
		fr.defers = fr.defers[:len(fr.defers)-1]
		r.callFunction(fr.g, fr, d.fn, d.args)
	}
	if fr.panicking {
		panic(fr.panicVal)
	}
}

var traceOn = os.Getenv("GOSYM_TRACE") != ""

func (r *Run) traceInstr(fr *frame, ci *cinstr) {
	if tf := os.Getenv("GOSYM_TRACE"); tf != "1" && !strings.Contains(fr.fn.String(), tf) {
		return
	}
	out := ""
	if ci.dst >= 0 {
		out = " => " + describe(fr.regs[ci.dst])
	}
	if v, ok := ci.ins.(ssa.Value); ok {
		fmt.Fprintf(os.Stderr, "  [%s] %s = %s%s\n", fr.fn.Name(), v.Name(), ci.ins, out)
	} else {
		fmt.Fprintf(os.Stderr, "  [%s] %s\n", fr.fn.Name(), ci.ins)
	}
}

type kont int

const (
	kNext kont = iota
	kJump
	kReturn
)

func (r *Run) execBlocks(fr *frame) {
	g := fr.g
	for {
		cb := &fr.info.blocks[fr.block.Index]
		if cb.hit == 0 {
			cb.hit = 1
		}
		// phis (parallel assignment)
		if cb.nphi > 0 {
			pi := -1
			for i, p := range fr.block.Preds {
				if p == fr.prev {
					pi = i
					break
				}
			}
			if pi < 0 {
				r.abort("phi: predecessor not found in %s", fr.fn)
			}
			var tmp [8]Value
			vals := tmp[:0]
			for i := 0; i < cb.nphi; i++ {
				vals = append(vals, fr.get(&cb.ins[i].args[pi]))
			}
			for i := 0; i < cb.nphi; i++ {
				fr.regs[cb.ins[i].dst] = vals[i]
			}
		}
		jumped := false
		for i := cb.nphi; i < len(cb.ins); i++ {
			ci := &cb.ins[i]
			fr.curIns = ci.ins
			r.steps++
			if r.steps&0xfff == 0 {
				budget := r.W.Lim.MaxSteps
				if r.stepBudget > 0 {
					budget = r.stepBudget
				}
				if r.steps&0xfffff == 0 {
					r.checkDeadline()
				}
				if budget > 0 && r.steps > budget {
					if r.nontermIsViolation {
						r.violate(g, "nontermination", "step budget exceeded", r.currentModelOrSolveSafe())
					}
					r.abort("step budget exceeded (%d)", r.W.Lim.MaxSteps)
				}
			}
			k := r.visit(g, fr, ci)
			if traceOn {
				r.traceInstr(fr, ci)
			}
			switch k {
			case kReturn:
				return
			case kJump:
				jumped = true
			}
			if jumped {
				break
			}
		}
		if !jumped {
			r.abort("block without terminator in %s", fr.fn)
		}
	}
}

func (r *Run) visit(g *Goroutine, fr *frame, ci *cinstr) kont {
	switch ins := ci.ins.(type) {
	case *ssa.BinOp:
		fr.regs[ci.dst] = r.binop(g, ins.Op, ins.X.Type(), ins.Y.Type(), fr.get(&ci.args[0]), fr.get(&ci.args[1]))

	case *ssa.UnOp:
		x := fr.get(&ci.args[0])
		switch ins.Op {
		case token.MUL: // load
			p := x.(*Value)
			if p == nil {
				r.panicRuntime(g, "invalid memory address or nil pointer dereference")
			}
			if r.race != nil && !fr.info.noRace {
				r.memEvent(g, p, false)
			}
			fr.regs[ci.dst] = copyVal(*p)
		case token.ARROW:
			ch, _ := x.(*Chan)
			v, ok := r.chanRecv(g, ch)
			if ins.CommaOk {
				fr.regs[ci.dst] = Tuple{v, ok}
			} else {
				fr.regs[ci.dst] = v
			}
		default:
			fr.regs[ci.dst] = r.unop(ins.Op, ins.X.Type(), x)
		}

	case *ssa.Store:
		p := fr.get(&ci.args[0]).(*Value)
		if p == nil {
			r.panicRuntime(g, "invalid memory address or nil pointer dereference")
		}
		if r.race != nil && !fr.info.noRace {
			r.memEvent(g, p, true)
		}
		storeInto(p, fr.get(&ci.args[1]))

	case *ssa.FieldAddr:
		p := fr.get(&ci.args[0]).(*Value)
		if p == nil {
			r.panicRuntime(g, "invalid memory address or nil pointer dereference")
		}
		fr.regs[ci.dst] = &(*p).(Struct)[ins.Field]

	case *ssa.Field:
		fr.regs[ci.dst] = fr.get(&ci.args[0]).(Struct)[ins.Field]

	case *ssa.IndexAddr:
		x := fr.get(&ci.args[0])
		idx := fr.get(&ci.args[1])
		switch x := x.(type) {
		case *Value:
			if x == nil {
				r.panicRuntime(g, "invalid memory address or nil pointer dereference")
			}
			a := (*x).(Array)
			i := r.checkIndex(g, idx, ins.Index.Type(), len(a))
			fr.regs[ci.dst] = &a[i]
		case Slice:
			i := r.checkIndex(g, idx, ins.Index.Type(), x.Len)
			fr.regs[ci.dst] = &x.Data[i]
		default:
			r.abort("IndexAddr on %T", x)
		}

	case *ssa.Index:
		x := fr.get(&ci.args[0])
		idx := fr.get(&ci.args[1])
		switch x := x.(type) {
		case Array:
			i := r.checkIndex(g, idx, ins.Index.Type(), len(x))
			fr.regs[ci.dst] = x[i]
		case string:
			i := r.checkIndex(g, idx, ins.Index.Type(), len(x))
			fr.regs[ci.dst] = uint64(x[i])
		default:
			r.abort("Index on %T", x)
		}

	case *ssa.Phi:
		r.abort("phi in the middle of a block")

	case *ssa.Jump:
		fr.prev, fr.block = fr.block, fr.block.Succs[0]
		return kJump

	case *ssa.If:
		c := fr.get(&ci.args[0])
		var b bool
		switch c := c.(type) {
		case bool:
			b = c
		case *sym.Term:
			b = r.Branch(c, fr.site())
		default:
			r.abort("branch on untracked value %T", c)
		}
		succ := 1
		if b {
			succ = 0
		}
		fr.prev, fr.block = fr.block, fr.block.Succs[succ]
		return kJump

	case *ssa.Return:
		switch len(ci.args) {
		case 0:
		case 1:
			fr.result = fr.get(&ci.args[0])
		default:
			res := make(Tuple, len(ci.args))
			for i := range ci.args {
				res[i] = fr.get(&ci.args[i])
			}
			fr.result = res
		}
		fr.block = nil
		return kReturn

	case *ssa.RunDefers:
		fr.runDefers()

	case *ssa.Panic:
		v := fr.get(&ci.args[0])
		panic(targetPanic{v: v, site: fr.site(), fn: fr.fn.String(), trace: g.stackTrace(12)})

	case *ssa.Call:
		fn, args := r.prepareCall(g, fr, &ins.Call, ci)
		fr.regs[ci.dst] = r.callFunction(g, fr, fn, args)

	case *ssa.Defer:
		fn, args := r.prepareCall(g, fr, &ins.Call, ci)
		fr.defers = append(fr.defers, &deferred{fn: fn, args: args})

	case *ssa.Go:
		fn, args := r.prepareCall(g, fr, &ins.Call, ci)
		r.spawn(g, fn, args, fr.site())

	case *ssa.Alloc:
		cell := zero(ci.typ)
		fr.regs[ci.dst] = &cell

	case *ssa.MakeInterface:
		fr.regs[ci.dst] = Iface{T: ins.X.Type(), V: fr.get(&ci.args[0])}

	case *ssa.Extract:
		fr.regs[ci.dst] = fr.get(&ci.args[0]).(Tuple)[ins.Index]

	case *ssa.ChangeType:
		fr.regs[ci.dst] = fr.get(&ci.args[0])

	case *ssa.ChangeInterface:
		fr.regs[ci.dst] = fr.get(&ci.args[0])

	case *ssa.Convert:
		fr.regs[ci.dst] = r.conv(ins.X.Type(), ins.Type(), fr.get(&ci.args[0]))

	case *ssa.TypeAssert:
		fr.regs[ci.dst] = r.typeAssert(g, ins, fr.get(&ci.args[0]).(Iface))

	case *ssa.MakeClosure:
		env := make([]Value, len(ci.args)-1)
		for i := range env {
			env[i] = fr.get(&ci.args[i+1])
		}
		fr.regs[ci.dst] = &Closure{Fn: ins.Fn.(*ssa.Function), Env: env}

	case *ssa.MakeSlice:
		n := r.concreteInt(g, fr.get(&ci.args[0]), ins.Len.Type(), "make len")
		c := r.concreteInt(g, fr.get(&ci.args[1]), ins.Cap.Type(), "make cap")
		if n < 0 || n > 1<<31 {
			r.panicRuntime(g, "makeslice: len out of range")
		}
		if c < n || c > 1<<31 {
			r.panicRuntime(g, "makeslice: cap out of range")
		}
		et := ci.typ
		d := make([]Value, c)
		z := zero(et)
		switch z.(type) {
		case Struct, Array:
			for i := range d {
				d[i] = zero(et)
			}
		default:
			for i := range d {
				d[i] = z
			}
		}
		fr.regs[ci.dst] = Slice{Data: d, Len: int(n)}

	case *ssa.Slice:
		fr.regs[ci.dst] = r.sliceOp(g, fr, ins, ci)

	case *ssa.MakeMap:
		fr.regs[ci.dst] = newMap()

	case *ssa.MapUpdate:
		m, _ := fr.get(&ci.args[0]).(*Map)
		if m == nil {
			panic(targetPanic{v: r.runtimeError("assignment to entry in nil map")})
		}
		if r.race != nil && !fr.info.noRace {
			r.memEvent(g, m, true)
		}
		r.mapSet(g, m, fr.get(&ci.args[1]), copyVal(fr.get(&ci.args[2])))

	case *ssa.Lookup:
		x := fr.get(&ci.args[0])
		k := fr.get(&ci.args[1])
		switch x := x.(type) {
		case string:
			i := r.checkIndex(g, k, ins.Index.Type(), len(x))
			fr.regs[ci.dst] = uint64(x[i])
		case *Map:
			if r.race != nil && !fr.info.noRace && x != nil {
				r.memEvent(g, x, false)
			}
			v, ok := r.mapGet(g, x, k)
			if !ok {
				v = zero(ci.typ)
			}
			if ins.CommaOk {
				fr.regs[ci.dst] = Tuple{v, ok}
			} else {
				fr.regs[ci.dst] = v
			}
		default:
			r.abort("Lookup on %T", x)
		}

	case *ssa.Range:
		fr.regs[ci.dst] = r.makeIter(g, fr.get(&ci.args[0]))

	case *ssa.Next:
		fr.regs[ci.dst] = fr.get(&ci.args[0]).(*iter).next(r, g)

	case *ssa.MakeChan:
		n := r.concreteInt(g, fr.get(&ci.args[0]), ins.Size.Type(), "make chan")
		fr.regs[ci.dst] = r.newChan(int(n), ci.typ)

	case *ssa.Send:
		ch, _ := fr.get(&ci.args[0]).(*Chan)
		r.chanSend(g, ch, fr.get(&ci.args[1]))

	case *ssa.Select:
		fr.regs[ci.dst] = r.doSelect(g, fr, ins, ci)

	case *ssa.DebugRef:
		// no-op

	case *ssa.SliceToArrayPointer:
		s := fr.get(&ci.args[0]).(Slice)
		n := int(ci.typ.(*types.Array).Len())
		if s.Len < n {
			r.panicRuntime(g, "cannot convert slice to array pointer: length too short")
		}
		if s.Data == nil {
			fr.regs[ci.dst] = (*Value)(nil)
		} else {
			r.abort("SliceToArrayPointer on non-nil slice is not supported")
		}

	default:
		r.abort("unsupported instruction %T in %s", ins, fr.fn)
	}
	return kNext
}

// checkIndex performs the bounds check of an index expression and returns the
// concrete index (case-splitting a symbolic one).
func (r *Run) checkIndex(g *Goroutine, idx Value, it types.Type, n int) int {
	switch idx := idx.(type) {
	case uint64:
		k := intKindOf(it)
		var i int64
		if k.signed {
			i = int64(idx)
			if i < 0 || i >= int64(n) {
				r.panicRuntime(g, fmt.Sprintf("index out of range [%d] with length %d", i, n))
			}
		} else {
			if idx >= uint64(n) {
				r.panicRuntime(g, fmt.Sprintf("index out of range [%d] with length %d", idx, n))
			}
			i = int64(idx)
		}
		return int(i)
	case *sym.Term:
		// in range?  compare at 64 bits (unsigned compare covers negatives)
		wide := idx
		if idx.W < 64 {
			if intKindOf(it).signed {
				wide = r.C.SExt(idx, 64)
			} else {
				wide = r.C.ZExt(idx, 64)
			}
		}
		in := r.C.Ult(wide, r.C.Const(uint64(n), 64))
		if !r.Branch(in, r.siteOf(g)) {
			r.panicRuntime(g, fmt.Sprintf("index out of range [symbolic] with length %d", n))
		}
		return int(r.Concretize(idx, r.siteOf(g)))
	}
	r.abort("index of type %T", idx)
	return 0
}

// concreteInt turns an integer value into a concrete int64, case-splitting if symbolic.
func (r *Run) concreteInt(g *Goroutine, v Value, t types.Type, what string) int64 {
	switch v := v.(type) {
	case uint64:
		return int64(v)
	case *sym.Term:
		k := intKindOf(t)
		u := r.Concretize(v, r.siteOf(g)+" "+what)
		return int64(k.norm(u))
	}
	r.abort("%s: integer expected, got %T", what, v)
	return 0
}

func (r *Run) sliceOp(g *Goroutine, fr *frame, ins *ssa.Slice, ci *cinstr) Value {
	x := fr.get(&ci.args[0])
	var lo, hi, max int64 = 0, -1, -1
	if ci.args[1].kind != argNone {
		lo = r.concreteInt(g, fr.get(&ci.args[1]), ins.Low.Type(), "slice low")
	}
	if ci.args[2].kind != argNone {
		hi = r.concreteInt(g, fr.get(&ci.args[2]), ins.High.Type(), "slice high")
	}
	if ci.args[3].kind != argNone {
		max = r.concreteInt(g, fr.get(&ci.args[3]), ins.Max.Type(), "slice max")
	}
	switch x := x.(type) {
	case string:
		if hi < 0 {
			hi = int64(len(x))
		}
		if lo < 0 || hi > int64(len(x)) || lo > hi {
			r.panicRuntime(g, fmt.Sprintf("slice bounds out of range [%d:%d] with length %d", lo, hi, len(x)))
		}
		return x[lo:hi]
	case *Value:
		if x == nil {
			r.panicRuntime(g, "invalid memory address or nil pointer dereference")
		}
		a := (*x).(Array)
		n := int64(len(a))
		if hi < 0 {
			hi = n
		}
		if max < 0 {
			max = n
		}
		if lo < 0 || hi > max || max > n || lo > hi {
			r.panicRuntime(g, fmt.Sprintf("slice bounds out of range [%d:%d:%d] with capacity %d", lo, hi, max, n))
		}
		return Slice{Data: []Value(a)[lo:max:max], Len: int(hi - lo)}
	case Slice:
		c := int64(x.Cap())
		if hi < 0 {
			hi = int64(x.Len)
		}
		if max < 0 {
			max = c
		}
		if lo < 0 || hi > max || max > c || lo > hi {
			r.panicRuntime(g, fmt.Sprintf("slice bounds out of range [%d:%d:%d] with capacity %d", lo, hi, max, c))
		}
		if x.Data == nil {
			return Slice{}
		}
		return Slice{Data: x.Data[lo:max:max], Len: int(hi - lo)}
	}
	r.abort("Slice on %T", x)
	return nil
}

func (r *Run) prepareCall(g *Goroutine, fr *frame, call *ssa.CallCommon, ci *cinstr) (Value, []Value) {
	v := fr.get(&ci.args[0])
	var fn Value
	var args []Value
	if call.Method == nil {
		fn = v
		args = make([]Value, 0, len(ci.args)-1)
	} else {
		recv, ok := v.(Iface)
		if !ok {
			r.abort("invoke on non-interface %T", v)
		}
		if recv.T == nil {
			r.panicRuntime(g, "invalid memory address or nil pointer dereference (method call on nil interface)")
		}
		m := r.P.lookupMethod(recv.T, call.Method)
		if m == nil {
			r.abort("method %s not found on %v", call.Method.Name(), recv.T)
		}
		fn = m
		args = make([]Value, 0, len(ci.args))
		args = append(args, recv.V)
	}
	for i := 1; i < len(ci.args); i++ {
		args = append(args, fr.get(&ci.args[i]))
	}
	return fn, args
}

func (r *Run) typeAssert(g *Goroutine, ins *ssa.TypeAssert, x Iface) Value {
	T := ins.AssertedType
	ok := false
	var v Value
	if it, isIface := T.Underlying().(*types.Interface); isIface {
		if x.T != nil && r.P.implements(x.T, it) {
			ok = true
			v = x
		}
	} else {
		if x.T != nil && types.Identical(x.T, T) {
			ok = true
			v = x.V
		}
	}
	if ins.CommaOk {
		if !ok {
			v = zero(T)
		}
		return Tuple{v, ok}
	}
	if !ok {
		msg := ""
		if x.T == nil {
			msg = fmt.Sprintf("interface conversion: interface is nil, not %v", T)
		} else {
			msg = fmt.Sprintf("interface conversion: interface is %v, not %v", x.T, T)
		}
		panic(targetPanic{v: r.runtimeError(msg), site: r.siteOf(g)})
	}
	return v
}

// globalAddr returns the cell of global g for this run, running the package
// initialiser on first touch.
func (r *Run) globalAddr(gl *ssa.Global) *Value {
	if p, ok := r.globals[gl]; ok {
		return p
	}
	if gl.Pkg != nil && !r.inited[gl.Pkg] {
		r.initPackage(r.cur, gl.Pkg)
		if p, ok := r.globals[gl]; ok {
			return p
		}
	}
	cell := zero(gl.Type().(*types.Pointer).Elem())
	p := &cell
	r.globals[gl] = p
	return p
}

func eagerInit(path string) bool {
	return strings.HasPrefix(path, "github.com/itchio/wharf/compressors/") || strings.HasPrefix(path, "github.com/itchio/wharf/decompressors/")
}

// initPackage runs the package initialiser on demand (dependencies are
// initialised on demand as well, so calls to other packages' init are skipped).
func (r *Run) initPackage(g *Goroutine, pkg *ssa.Package) {
	if r.inited[pkg] {
		return
	}
	r.inited[pkg] = true
	path := pkg.Pkg.Path()
	if alt, ok := r.P.initOverride[path]; ok {
		if alt != nil {
			r.callSSA(g, nil, alt, nil, nil)
		}
		return
	}
	if !r.P.runInit(path) {
		return
	}
	init := pkg.Func("init")
	if init == nil || init.Blocks == nil {
		return
	}
	saved := r.wantInit
	r.wantInit = init
	r.initDepth++
	r.callSSA(g, g.top, init, nil, nil)
	r.initDepth--
	r.wantInit = saved
}

// storeInto assigns v to the cell *p. Aggregates are copied element-wise into
// the existing storage so that addresses of fields/elements taken earlier stay valid.
func storeInto(p *Value, v Value) {
	switch x := v.(type) {
	case Struct:
		if dst, ok := (*p).(Struct); ok && len(dst) == len(x) {
			for i := range x {
				storeInto(&dst[i], x[i])
			}
			return
		}
	case Array:
		if dst, ok := (*p).(Array); ok && len(dst) == len(x) {
			for i := range x {
				storeInto(&dst[i], x[i])
			}
			return
		}
	}
	*p = copyVal(v)
}
