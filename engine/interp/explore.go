package interp

import (
	"fmt"
	"os"
	"sort"
	"strings"
	"sync"
	"time"

	"gosym/sym"

	"golang.org/x/tools/go/ssa"
)

// ---- outcomes -------------------------------------------------------------

type abortRun struct{ reason string } // engine cannot continue this path (inconclusive)
type pathEnd struct{}                 // the path is over (normal end, violation recorded, infeasible assume)
type killed struct{}                  // a parked target goroutine is being torn down

// Violation is one failed assertion (explicit or implicit) on one path.
type Violation struct {
	Kind    string            `json:"kind"`  // assert | panic | deadlock | goroutine-panic | nontermination
	Label   string            `json:"label"` // assertion label or panic message
	Site    string            `json:"site"`  // source position of the failing instruction
	Func    string            `json:"func"`
	Tags    map[string]string `json:"tags,omitempty"`
	Inputs  []InputVal        `json:"inputs"`
	Choices []ChoiceVal       `json:"choices"`
	Trace   []string          `json:"trace,omitempty"`
}

type InputVal struct {
	Label string `json:"label"`
	Name  string `json:"name"`
	Width int    `json:"width"`
	Value uint64 `json:"value"`
}

type ChoiceVal struct {
	Kind  string `json:"kind"`
	Label string `json:"label"`
	Value uint64 `json:"value"`
}

func (v *Violation) Key() string {
	return v.Kind + "|" + v.Label + "|" + v.Site
}

type decision struct {
	kind  string // branch | value | choice | sched | select | maporder | check
	site  string
	alts  []uint64
	cur   int
	label string
}

// Limits bound one path / one instance.
type Limits struct {
	MaxSteps     int64 // instructions per path
	MaxPaths     int   // paths per instance
	MaxDecisions int   // decisions per path
	Preemptions  int   // preemption bound
	MaxValues    int   // alternatives per concretisation
	Deadline     time.Time
}

// Worker owns a term context and a solver; it explores instances one at a time.
type Worker struct {
	P       *Program
	C       *sym.Ctx
	S       *sym.Solver
	ID      int
	Lim     Limits
	Verbose int

	// per-instance exploration state
	dec            []*decision
	solverBase     int // solver depth at instance start (after the instance push)
	retained       int // decision frames currently on the solver stack
	restarted      bool
	runsInInstance int
	raceAnalyzed   int // race query: analysed paths of the current instance (capped)

	Stats Stats
}

type Stats struct {
	Paths        int
	Steps        int64
	Queries      int
	SolverTime   time.Duration
	Unknowns     int
	Inconclusive int
	Decisions    int
	MaxDepth     int
}

func NewWorker(p *Program, id int, solverKind string, lim Limits) (*Worker, error) {
	s, err := sym.NewSolver(solverKind, 8000)
	if err != nil {
		return nil, err
	}
	s.FallbackKinds = []string{"z3-new", "cvc5", "z3"}
	s.FallbackTimeout = 60
	if dir := os.Getenv("GOSYM_SMTLOG"); dir != "" {
		f, err := os.Create(fmt.Sprintf("%s/w%d.smt2", dir, id))
		if err == nil {
			s.Log = f
		}
	}
	return &Worker{P: p, C: sym.NewCtx(), S: s, ID: id, Lim: lim}, nil
}

func (w *Worker) Close() { w.S.Close() }

// ConcreteInputs drives a concrete (translator-validation) run: inputs and
// choices are consumed in creation order; missing values are 0.
type ConcreteInputs struct {
	Inputs  []uint64
	Choices []uint64
}

// InstanceResult summarises the exploration of one harness instance.
type InstanceResult struct {
	Harness         string
	Params          map[string]int
	Paths           int
	Completed       int // paths that ran to the end of the harness
	Steps           int64
	Queries         int
	SolverTime      float64
	Unknowns        int
	Fallbacks       int
	FeasUnknown     int
	Inconclusive    []string
	Violations      []*Violation
	Reached         map[string]int
	Observations    [][]string // per completed path when recording is on (concrete runs)
	Exhausted       bool       // decision tree fully explored
	SamplePath      []string
	Funcs           map[string]bool
	MaxDepth        int
	Wall            float64
	RaceQueries     int
	RaceTime        float64
	AssertsProved   int
	AssertsConcrete int
}

// Run is the state of one path execution.
type Run struct {
	W       *Worker
	P       *Program
	C       *sym.Ctx
	globals map[*ssa.Global]*Value
	inited  map[*ssa.Package]bool
	side    map[any]any
	params  map[string]int

	gs      []*Goroutine
	cur     *Goroutine
	main    *Goroutine
	dead    bool
	wg      sync.WaitGroup
	preempt int

	cursor       int
	model        map[string]uint64
	evalMemo     map[*sym.Term]uint64
	inputs       []inputSym
	choices      []ChoiceVal
	pcLen        int
	steps        int64
	tags         map[string]string
	reached      map[string]int
	observed     []string
	funcs        map[string]bool
	mapOrder     int      // 0 insertion order, 1 all permutations
	concreteIn   []uint64 // concrete-mode (translator validation): input values in creation order
	concreteCh   []uint64
	chPos        int
	concreteMode bool

	startRetained      int
	firstRun           bool
	mainMustEnd        bool
	nontermIsViolation bool
	stepBudget         int64
	initDepth          int
	wantInit           *ssa.Function
	chanCount          int
	hooks              []opHook
	visibleOps         int
	inHook             bool
	schedOff           bool
	race               *raceState
	raceOff            bool
	tmpCount           int
	ownParams          bool
	switches           int

	outcome         string // "" running, ok, violation, infeasible, inconclusive
	violation       *Violation
	inconc          string
	raceQueries     int
	raceTime        float64
	provedAsserts   int
	concreteAsserts int
	lastPos         string
}

type inputSym struct {
	label string
	t     *sym.Term
}

// ExploreInstance explores every path of harness fn under params.
func (w *Worker) ExploreInstance(fn *ssa.Function, params map[string]int, concreteInputs *ConcreteInputs) *InstanceResult {
	t0 := time.Now()
	res := &InstanceResult{Harness: fn.Name(), Params: params, Reached: map[string]int{}, Funcs: map[string]bool{}}
	q0, st0, u0 := w.S.Queries, w.S.Time, w.S.Unknowns
	fb0, fu0 := w.S.Fallbacks, w.S.FeasUnknown
	if w.S.NumDefined() > 150000 || len(w.C.Terms) > 2000000 {
		w.S.Restart()
		w.C = sym.NewCtx()
	}
	w.S.Push()
	w.solverBase = w.S.Depth()
	w.dec = nil
	w.retained = 0
	w.runsInInstance = 0
	w.raceAnalyzed = 0
	seenViol := map[string]bool{}
	for {
		if w.Lim.MaxPaths > 0 && res.Paths >= w.Lim.MaxPaths {
			res.Inconclusive = append(res.Inconclusive, fmt.Sprintf("path budget %d exhausted", w.Lim.MaxPaths))
			break
		}
		if !w.Lim.Deadline.IsZero() && time.Now().After(w.Lim.Deadline) {
			res.Inconclusive = append(res.Inconclusive, "deadline reached")
			break
		}
		r := w.runOnce(fn, params, concreteInputs)
		res.Paths++
		res.Steps += r.steps
		res.AssertsProved += r.provedAsserts
		res.RaceQueries += r.raceQueries
		res.RaceTime += r.raceTime
		res.AssertsConcrete += r.concreteAsserts
		for k := range r.funcs {
			res.Funcs[k] = true
		}
		if len(w.dec) > res.MaxDepth {
			res.MaxDepth = len(w.dec)
		}
		for k, n := range r.reached {
			res.Reached[k] += n
		}
		switch r.outcome {
		case "ok":
			res.Completed++
			if concreteInputs != nil {
				res.Observations = append(res.Observations, r.observed)
			}
			if res.SamplePath == nil {
				res.SamplePath = r.describePath()
			}
		case "violation":
			if concreteInputs != nil {
				// a panic / deadlock in a concrete run: part of the observable behaviour
				res.Observations = append(res.Observations, append(r.observed, "ended:"+r.violation.Kind))
			}
			k := r.violation.Key()
			if !seenViol[k] {
				seenViol[k] = true
				res.Violations = append(res.Violations, r.violation)
			}
		case "inconclusive":
			if len(res.Inconclusive) < 20 {
				res.Inconclusive = append(res.Inconclusive, r.inconc)
			} else if len(res.Inconclusive) == 20 {
				res.Inconclusive = append(res.Inconclusive, "... more")
			}
		case "infeasible":
			if concreteInputs != nil {
				res.Observations = append(res.Observations, []string{"void"})
			}
		}
		if w.Verbose > 1 {
			fmt.Printf("[w%d] path %d outcome=%s steps=%d decisions=%d %s\n", w.ID, res.Paths, r.outcome, r.steps, len(w.dec), r.inconc)
		}
		// backtrack
		for len(w.dec) > 0 {
			d := w.dec[len(w.dec)-1]
			if d.cur+1 < len(d.alts) {
				d.cur++
				break
			}
			w.dec = w.dec[:len(w.dec)-1]
		}
		if len(w.dec) == 0 {
			res.Exhausted = true
			break
		}
		// solver frames: keep those of decisions strictly before the advanced one
		keep := len(w.dec) - 1
		if w.retained > keep {
			w.S.Pop(w.retained - keep)
			w.retained = keep
		}
		if len(res.Violations) >= 8 {
			res.Inconclusive = append(res.Inconclusive, "stopped after 8 distinct violations")
			break
		}
	}
	// drop all frames of this instance
	if d := w.S.Depth() - (w.solverBase - 1); d > 0 {
		w.S.Pop(d)
	}
	w.retained = 0
	res.Queries = w.S.Queries - q0
	res.SolverTime = (w.S.Time - st0).Seconds()
	res.Unknowns = w.S.Unknowns - u0
	res.Fallbacks = w.S.Fallbacks - fb0
	res.FeasUnknown = w.S.FeasUnknown - fu0
	res.Wall = time.Since(t0).Seconds()
	w.Stats.Paths += res.Paths
	w.Stats.Steps += res.Steps
	return res
}

func (r *Run) describePath() []string {
	var out []string
	for _, d := range r.W.dec {
		if len(out) >= 40 {
			out = append(out, "...")
			break
		}
		out = append(out, fmt.Sprintf("%s@%s=%d/%d", d.kind, shortSite(d.site), d.alts[d.cur], len(d.alts)))
	}
	return out
}

func shortFn(s string) string {
	if i := strings.LastIndex(s, "/"); i >= 0 {
		return s[i+1:]
	}
	return s
}

func shortSite(s string) string {
	if i := strings.LastIndex(s, "/"); i >= 0 {
		return s[i+1:]
	}
	return s
}

// runOnce executes the harness once following w.dec as decision prefix.
func (w *Worker) runOnce(fn *ssa.Function, params map[string]int, concreteInputs *ConcreteInputs) (r *Run) {
	r = &Run{
		W: w, P: w.P, C: w.C,
		globals:  map[*ssa.Global]*Value{},
		inited:   map[*ssa.Package]bool{},
		side:     map[any]any{},
		params:   params,
		tags:     map[string]string{},
		reached:  map[string]int{},
		funcs:    map[string]bool{},
		evalMemo: map[*sym.Term]uint64{},

		concreteMode: concreteInputs != nil,
	}
	if concreteInputs != nil {
		r.concreteIn, r.concreteCh = concreteInputs.Inputs, concreteInputs.Choices
	}
	r.startRetained = w.retained
	r.firstRun = w.runsInInstance == 0
	w.runsInInstance++
	g := &Goroutine{id: 0, r: r, wake: make(chan struct{}, 1), name: "main"}
	r.gs = []*Goroutine{g}
	r.cur, r.main = g, g
	defer func() {
		if e := recover(); e != nil {
			switch e := e.(type) {
			case pathEnd:
			case abortRun:
				r.outcome = "inconclusive"
				r.inconc = e.reason
			case targetPanic:
				// unrecovered panic on the harness goroutine
				if r.outcome == "" {
					r.reportPanic(g, e, "panic")
				}
			default:
				r.outcome = "inconclusive"
				r.inconc = fmt.Sprintf("engine error: %v\n%s", e, engineStack())
			}
		}
		r.killAll()
	}()
	if params["race"] == 1 && concreteInputs == nil && w.raceAnalyzed < 12 {
		r.raceInit()
	}
	r.callFunction(g, nil, fn, nil)
	if r.outcome == "" {
		r.outcome = "ok"
		if r.race != nil && w.raceAnalyzed < 12 {
			w.raceAnalyzed++
			findings, nq, secs, problem := r.analyzeRaces(400)
			r.raceQueries, r.raceTime = nq, secs
			if problem != "" {
				r.outcome = "inconclusive"
				r.inconc = problem
			} else if len(findings) > 0 {
				f := findings[0]
				v := &Violation{Kind: "race", Label: fmt.Sprintf("unsynchronised conflicting accesses: %s (%s) and %s (%s)", f.A, shortFn(f.FuncA), f.B, shortFn(f.FuncB)), Site: f.A, Func: f.FuncA, Tags: map[string]string{}}
				for _, x := range findings {
					v.Trace = append(v.Trace, x.A+" <-> "+x.B)
				}
				m := r.currentModelOrSolveSafe()
				memo := map[*sym.Term]uint64{}
				for _, in := range r.inputs {
					v.Inputs = append(v.Inputs, InputVal{Label: in.label, Name: in.t.Name, Width: int(in.t.W), Value: sym.Eval(in.t, m, memo)})
				}
				v.Choices = append(v.Choices, r.choices...)
				r.violation = v
				r.outcome = "violation"
			}
		}
	}
	return r
}

// killAll tears down every parked goroutine of the run.
func (r *Run) killAll() {
	r.dead = true
	for _, g := range r.gs {
		if g != r.main && !g.done {
			select {
			case g.wake <- struct{}{}:
			default:
			}
		}
	}
	r.wg.Wait()
}

func (r *Run) abort(format string, args ...any) {
	site := ""
	func() {
		defer func() { recover() }()
		site = r.siteOf(r.cur)
	}()
	trace := ""
	func() {
		defer func() { recover() }()
		if r.cur != nil {
			trace = " [" + strings.Join(r.cur.stackTrace(8), " <- ") + "]"
		}
	}()
	panic(abortRun{fmt.Sprintf(format, args...) + " @ " + site + trace})
}

// ---- decisions ------------------------------------------------------------

// nextDecision returns the recorded decision at the cursor, or nil when a new
// one must be made.
func (r *Run) recorded() *decision {
	if r.cursor < len(r.W.dec) {
		return r.W.dec[r.cursor]
	}
	return nil
}

func (r *Run) record(d *decision) {
	if r.W.Lim.MaxDecisions > 0 && len(r.W.dec) >= r.W.Lim.MaxDecisions {
		if r.nontermIsViolation {
			// a path that keeps deciding (typically a loop whose trip count comes from the input): candidate
			// non-termination, with a model that makes the wide inputs as large as the path allows; the native
			// replay (10 s) confirms or refutes it
			r.violate(r.cur, "nontermination", "decision budget exceeded: the work grows with an input value", r.largeModelSafe())
		}
		r.abort("decision budget exceeded (%d)", r.W.Lim.MaxDecisions)
	}
	r.checkDeadline()
	r.W.dec = append(r.W.dec, d)
	r.W.Stats.Decisions++
}

// takeLiteral advances the cursor past a decision whose chosen alternative
// contributes literal lit to the path condition.
func (r *Run) takeLiteral(lit *sym.Term) {
	w := r.W
	idx := r.cursor
	r.cursor++
	if idx < w.retained {
		return // frame still on the solver stack
	}
	w.S.Push()
	w.retained++
	if lit != nil {
		w.S.Assert(lit)
	}
}

// assume adds c to the path condition without alternatives.
func (r *Run) assumeTerm(c *sym.Term) {
	w := r.W
	// frame (cursor-1) holds this assumption; it is retained iff cursor <= retainedAtStart.
	// We track this with the run-local flag: assumptions are re-sent unless the
	// frame they live in predates this run.
	if r.cursor == 0 {
		// base level of the instance: asserted once, on the first run, and never popped
		if !r.firstRun {
			return
		}
		w.S.Assert(c)
		return
	}
	if r.cursor < r.retainedAtStartPlusOne() {
		return
	}
	w.S.Assert(c)
}

// retainedAtStartPlusOne: assumptions made when cursor <= (retained at run start)
// already live in a retained frame.
func (r *Run) retainedAtStartPlusOne() int {
	return r.startRetained + 1
}

// modelValue evaluates t under the cached model, if any.
func (r *Run) modelValue(t *sym.Term) (uint64, bool) {
	if r.model == nil {
		return 0, false
	}
	return sym.Eval(t, r.model, r.evalMemo), true
}

func (r *Run) setModel(m map[string]uint64) {
	r.model = m
	r.evalMemo = map[*sym.Term]uint64{}
}

// checkDeadline ends the current path when the instance's wall-clock budget is spent (a single path can be
// arbitrarily long: a symbolic loop bound with a slow solver query per iteration).
func (r *Run) checkDeadline() {
	if d := r.W.Lim.Deadline; !d.IsZero() && time.Now().After(d) {
		r.abort("deadline reached inside a path")
	}
}

// largeModelSafe returns a model of the current path in which one 64-bit (else 32-bit) input is huge, if the
// path allows it; otherwise any model.
func (r *Run) largeModelSafe() (m map[string]uint64) {
	defer func() {
		if e := recover(); e != nil {
			m = map[string]uint64{}
		}
	}()
	syms := r.allSyms()
	for _, w := range []uint8{64, 32} {
		for i := len(r.inputs) - 1; i >= 0; i-- {
			t := r.inputs[i].t
			if t.W != w {
				continue
			}
			big := r.C.Const(1<<40, 64)
			if w == 32 {
				big = r.C.Const(1<<30, 32)
			}
			if res, mm := r.W.S.CheckAssumingModel(r.C.And(r.C.Slt(big, t), r.C.Slt(r.C.Const(0, w), t)), syms); res == sym.Sat && mm != nil {
				return mm
			}
		}
	}
	return r.currentModelOrSolve()
}

func (r *Run) allSyms() []*sym.Term {
	out := make([]*sym.Term, len(r.inputs))
	for i, in := range r.inputs {
		out[i] = in.t
	}
	return out
}

// Branch decides a symbolic boolean, returning the concrete outcome for this path.
func (r *Run) Branch(c *sym.Term, site string) bool {
	if c.IsConst() {
		return c.K != 0
	}
	if d := r.recorded(); d != nil {
		if d.kind != "branch" {
			r.abort("non-deterministic re-execution: expected %s decision at %s, got branch at %s", d.kind, d.site, site)
		}
		v := d.alts[d.cur] != 0
		lit := c
		if !v {
			lit = r.C.Not(c)
		}
		r.takeLiteral(lit)
		if r.model != nil {
			if mv, _ := r.modelValue(c); (mv != 0) != v {
				r.model = nil
			}
		}
		return v
	}
	w := r.W
	notc := r.C.Not(c)
	var alts []uint64
	mv, haveModel := r.modelValue(c)
	if haveModel {
		// the side the model takes is feasible; ask only about the other one
		other := notc
		if mv == 0 {
			other = c
		}
		res, _ := w.S.CheckFeasible(other, nil)
		if mv != 0 {
			alts = append(alts, 1)
			if res != sym.Unsat {
				alts = append(alts, 0)
			}
		} else {
			alts = append(alts, 0)
			if res != sym.Unsat {
				alts = append(alts, 1)
			}
		}
	} else {
		res, m := w.S.CheckFeasible(c, r.allSyms())
		if res == sym.Unsat {
			alts = []uint64{0}
		} else {
			res2, _ := w.S.CheckFeasible(notc, nil)
			if res2 == sym.Unsat {
				alts = []uint64{1}
			} else {
				alts = []uint64{1, 0}
			}
			if res == sym.Sat {
				r.setModel(m)
			}
		}
	}
	d := &decision{kind: "branch", site: site, alts: alts}
	r.record(d)
	v := alts[0] != 0
	lit := c
	if !v {
		lit = notc
	}
	r.takeLiteral(lit)
	if r.model != nil {
		if mv, _ := r.modelValue(c); (mv != 0) != v {
			r.model = nil
		}
	}
	return v
}

// Choose makes a non-solver decision among n alternatives (0..n-1).
func (r *Run) Choose(n int, kind, label string) int {
	if n <= 1 {
		return 0
	}
	if d := r.recorded(); d != nil {
		if d.kind != kind {
			r.abort("non-deterministic re-execution: expected %s decision at %s, got %s %s", d.kind, d.site, kind, label)
		}
		v := d.alts[d.cur]
		r.takeLiteral(nil)
		r.choices = append(r.choices, ChoiceVal{kind, label, v})
		return int(v)
	}
	alts := make([]uint64, n)
	for i := range alts {
		alts[i] = uint64(i)
	}
	r.record(&decision{kind: kind, site: label, alts: alts, label: label})
	r.takeLiteral(nil)
	r.choices = append(r.choices, ChoiceVal{kind, label, 0})
	return 0
}

// ChooseFrom is Choose over explicit alternative values.
func (r *Run) ChooseFrom(vals []uint64, kind, label string) uint64 {
	if len(vals) == 1 {
		return vals[0]
	}
	i := r.Choose(len(vals), kind, label)
	return vals[i]
}

// Concretize case-splits a symbolic integer into its feasible values.
func (r *Run) Concretize(t *sym.Term, site string) uint64 {
	if t.IsConst() {
		return t.K
	}
	if d := r.recorded(); d != nil {
		if d.kind != "value" {
			r.abort("non-deterministic re-execution: expected %s decision at %s, got value at %s", d.kind, d.site, site)
		}
		v := d.alts[d.cur]
		r.takeLiteral(r.C.Eq(t, r.C.Const(v, t.W)))
		if r.model != nil {
			if mv, _ := r.modelValue(t); mv != v {
				r.model = nil
			}
		}
		return v
	}
	w := r.W
	max := w.Lim.MaxValues
	if max <= 0 {
		max = 64
	}
	var alts []uint64
	w.S.Push()
	first := true
	for {
		var res sym.Result
		var m map[string]uint64
		if first {
			if mv, ok := r.modelValue(t); ok {
				alts = append(alts, mv)
				w.S.Assert(r.C.Not(r.C.Eq(t, r.C.Const(mv, t.W))))
				first = false
				continue
			}
		}
		first = false
		res = w.S.Check()
		if res == sym.Unsat {
			break
		}
		if res == sym.Unknown {
			w.S.Pop(1)
			r.abort("solver unknown while enumerating values at %s", site)
		}
		m = w.S.Model(r.allSyms())
		// evaluate t under m (the value is re-checked by the solver: it is asserted
		// different from t on the next round, and equal to t when the alternative is taken)
		v := sym.Eval(t, m, map[*sym.Term]uint64{})
		alts = append(alts, v)
		if len(alts) > max {
			w.S.Pop(1)
			r.abort("more than %d feasible values for symbolic integer at %s", max, site)
		}
		w.S.Assert(r.C.Not(r.C.Eq(t, r.C.Const(v, t.W))))
	}
	w.S.Pop(1)
	if len(alts) == 0 {
		r.abort("no feasible value at %s (path condition unsatisfiable?)", site)
	}
	sort.Slice(alts, func(i, j int) bool { return alts[i] < alts[j] })
	r.record(&decision{kind: "value", site: site, alts: alts})
	v := alts[0]
	r.takeLiteral(r.C.Eq(t, r.C.Const(v, t.W)))
	if r.model != nil {
		if mv, _ := r.modelValue(t); mv != v {
			r.model = nil
		}
	}
	return v
}

// Assume restricts the path; an infeasible assumption ends the path silently.
func (r *Run) Assume(c *sym.Term) {
	if c.IsConst() {
		if c.K == 0 {
			r.outcome = "infeasible"
			panic(pathEnd{})
		}
		return
	}
	if r.cursor < len(r.W.dec) {
		// replaying: feasibility was established the first time through
		r.assumeTerm(c)
		if r.model != nil {
			if mv, _ := r.modelValue(c); mv == 0 {
				r.model = nil
			}
		}
		return
	}
	if mv, ok := r.modelValue(c); ok && mv != 0 {
		r.assumeTerm(c)
		return
	}
	res, m := r.W.S.CheckAssumingModel(c, r.allSyms())
	if res == sym.Unsat {
		r.outcome = "infeasible"
		panic(pathEnd{})
	}
	r.assumeTerm(c)
	if res == sym.Sat {
		r.setModel(m)
	} else {
		r.model = nil
	}
}

// Assert checks c on this path: a satisfiable negation is a violation.
func (r *Run) Assert(g *Goroutine, c *sym.Term, kind, label string) {
	if r.concreteMode {
		if !c.IsConst() {
			r.abort("symbolic assertion in a concrete run")
		}
		r.observed = append(r.observed, fmt.Sprintf("assert:%s=%v", label, c.K != 0))
		return
	}
	if c.IsConst() {
		r.concreteAsserts++
		if c.K == 0 {
			r.violate(g, kind, label, r.currentModelOrSolve())
		}
		return
	}
	if r.cursor < len(r.W.dec) {
		// replayed prefix: this assertion was already proved on an earlier run
		r.assumeTerm(c)
		return
	}
	notc := r.C.Not(c)
	if mv, ok := r.modelValue(c); ok && mv == 0 {
		r.violate(g, kind, label, r.model)
		return
	}
	res, m := r.W.S.CheckAssumingModel(notc, r.allSyms())
	switch res {
	case sym.Sat:
		r.violate(g, kind, label, m)
	case sym.Unknown:
		r.abort("solver unknown on assertion %q (%s)", label, r.W.S.LastErr)
	}
	r.provedAsserts++
	r.assumeTerm(c)
}

func (r *Run) currentModelOrSolve() map[string]uint64 {
	if r.model != nil {
		return r.model
	}
	if len(r.inputs) == 0 {
		return map[string]uint64{}
	}
	res, m := r.W.S.CheckStack(r.allSyms())
	if res == sym.Sat {
		return m
	}
	if res == sym.Unsat {
		// the path itself is infeasible (can only happen after an unknown feasibility answer)
		r.outcome = "infeasible"
		panic(pathEnd{})
	}
	r.abort("solver unknown while producing a model for a concrete violation")
	return nil
}

func (r *Run) violate(g *Goroutine, kind, label string, m map[string]uint64) {
	if os.Getenv("GOSYM_DEBUG") != "" {
		fmt.Fprintf(os.Stderr, "[g?] VIOLATE %s %s\n", kind, label)
	}
	v := &Violation{Kind: kind, Label: label, Site: r.siteOf(g), Tags: map[string]string{}}
	for k, x := range r.tags {
		v.Tags[k] = x
	}
	if g != nil && g.top != nil {
		v.Func = g.top.fn.String()
		v.Trace = g.stackTrace(12)
	}
	memo := map[*sym.Term]uint64{}
	for _, in := range r.inputs {
		v.Inputs = append(v.Inputs, InputVal{Label: in.label, Name: in.t.Name, Width: int(in.t.W), Value: sym.Eval(in.t, m, memo)})
	}
	v.Choices = append(v.Choices, r.choices...)
	r.violation = v
	r.outcome = "violation"
	r.endRunFrom(g)
}

// endRunFrom ends the run from goroutine g (which may not be the main one).
func (r *Run) endRunFrom(g *Goroutine) {
	if g == nil || g == r.main {
		panic(pathEnd{})
	}
	// wake the main goroutine so that it unwinds, then die
	r.dead = true
	r.mainMustEnd = true
	select {
	case r.main.wake <- struct{}{}:
	default:
	}
	panic(killed{})
}

func (r *Run) reportPanic(g *Goroutine, p targetPanic, kind string) {
	label := r.panicString(p.v)
	m := r.currentModelOrSolveSafe()
	v := &Violation{Kind: kind, Label: label, Site: p.site, Tags: map[string]string{}}
	for k, x := range r.tags {
		v.Tags[k] = x
	}
	v.Func = p.fn
	v.Trace = p.trace
	memo := map[*sym.Term]uint64{}
	for _, in := range r.inputs {
		v.Inputs = append(v.Inputs, InputVal{Label: in.label, Name: in.t.Name, Width: int(in.t.W), Value: sym.Eval(in.t, m, memo)})
	}
	v.Choices = append(v.Choices, r.choices...)
	r.violation = v
	r.outcome = "violation"
}

func (r *Run) currentModelOrSolveSafe() (m map[string]uint64) {
	defer func() {
		if e := recover(); e != nil {
			m = map[string]uint64{}
		}
	}()
	return r.currentModelOrSolve()
}

func (r *Run) panicString(v Value) string {
	switch v := v.(type) {
	case Iface:
		switch x := v.V.(type) {
		case string:
			if v.T != nil && v.T.String() == "runtime.errorString" {
				return "runtime error: " + x
			}
			return x
		case *Value:
			// error pointer types: try the common pkg/errors and errors.errorString shapes
			if x != nil {
				if s, ok := (*x).(Struct); ok {
					for _, f := range s {
						if str, ok := f.(string); ok {
							return fmt.Sprintf("%v{%q}", v.T, str)
						}
					}
				}
			}
			return fmt.Sprintf("%v", v.T)
		}
		return fmt.Sprintf("%v:%s", v.T, describe(v.V))
	}
	return describe(v)
}
