package interp

import (
	"fmt"
	"go/token"
	"go/types"
	"math"
	"unicode/utf8"

	"gosym/sym"
)

// term lifts an integer value to a term of kind k.
func (r *Run) term(v Value, k ikind) *sym.Term {
	switch v := v.(type) {
	case *sym.Term:
		return v
	case uint64:
		return r.C.Const(v, k.w)
	}
	panic(fmt.Sprintf("term: unexpected %T", v))
}

func (r *Run) boolTerm(v Value) *sym.Term {
	switch v := v.(type) {
	case *sym.Term:
		return v
	case bool:
		return r.C.Bool(v)
	}
	panic(fmt.Sprintf("boolTerm: unexpected %T", v))
}

// simp turns constant terms back into concrete values.
func simp(t *sym.Term, k ikind) Value {
	if t.IsConst() {
		if t.W == 0 {
			return t.K != 0
		}
		return k.norm(t.K)
	}
	return t
}

func simpBool(t *sym.Term) Value {
	if t.IsConst() {
		return t.K != 0
	}
	return t
}

// binop implements all SSA binary operators. t is the static type of x
// (and of y except for shifts).
func (r *Run) binop(g *Goroutine, op token.Token, t types.Type, yt types.Type, x, y Value) Value {
	switch op {
	case token.EQL:
		return r.equalValues(x, y)
	case token.NEQ:
		return r.notValue(r.equalValues(x, y))
	}
	if _, ok := x.(Opaque); ok {
		return x
	}
	if _, ok := y.(Opaque); ok {
		return y
	}
	k := intKindOf(t)
	if k.w != 0 {
		return r.intBinop(g, op, k, intKindOf(yt), x, y)
	}
	switch x := x.(type) {
	case float64:
		y := y.(float64)
		f32 := false
		if b, ok := t.Underlying().(*types.Basic); ok && b.Kind() == types.Float32 {
			f32 = true
		}
		rnd := func(f float64) Value {
			if f32 {
				return float64(float32(f))
			}
			return f
		}
		switch op {
		case token.ADD:
			return rnd(x + y)
		case token.SUB:
			return rnd(x - y)
		case token.MUL:
			return rnd(x * y)
		case token.QUO:
			return rnd(x / y)
		case token.LSS:
			return x < y
		case token.LEQ:
			return x <= y
		case token.GTR:
			return x > y
		case token.GEQ:
			return x >= y
		}
	case string:
		y := y.(string)
		switch op {
		case token.ADD:
			return x + y
		case token.LSS:
			return x < y
		case token.LEQ:
			return x <= y
		case token.GTR:
			return x > y
		case token.GEQ:
			return x >= y
		}
	case bool, *sym.Term:
		// boolean &, | do not exist in SSA (only via If), but handle AND/OR defensively
		switch op {
		case token.AND, token.LAND:
			return simpBool(r.C.And(r.boolTerm(x), r.boolTerm(y)))
		case token.OR, token.LOR:
			return simpBool(r.C.Or(r.boolTerm(x), r.boolTerm(y)))
		}
	}
	r.abort("binop %v on %T/%T (type %v)", op, x, y, t)
	return nil
}

func (r *Run) notValue(v Value) Value {
	switch v := v.(type) {
	case bool:
		return !v
	case *sym.Term:
		return simpBool(r.C.Not(v))
	}
	r.abort("not on %T", v)
	return nil
}

func (r *Run) intBinop(g *Goroutine, op token.Token, k, yk ikind, x, y Value) Value {
	xc, xok := x.(uint64)
	yc, yok := y.(uint64)
	if xok && yok {
		return r.concreteIntBinop(g, op, k, yk, xc, yc)
	}
	C := r.C
	xt := r.term(x, k)
	switch op {
	case token.SHL, token.SHR:
		// shift count: own kind yk
		if yk.w == 0 {
			yk = ikind{64, false}
		}
		var cnt *sym.Term
		if yok {
			if yk.signed && int64(yc) < 0 {
				r.panicRuntime(g, "negative shift amount")
			}
			if yc >= uint64(k.w) {
				cnt = C.Const(uint64(k.w), k.w)
			} else {
				cnt = C.Const(yc, k.w)
			}
		} else {
			yt := r.term(y, yk)
			if yk.signed {
				neg := C.Slt(yt, C.Const(0, yk.w))
				if r.Branch(neg, r.siteOf(g)) {
					r.panicRuntime(g, "negative shift amount")
				}
			}
			// clamp to width
			big := C.Not(C.Ult(yt, C.Const(uint64(k.w), yk.w)))
			var narrow *sym.Term
			if yk.w > k.w {
				narrow = C.Extract(yt, 0, k.w)
			} else {
				narrow = C.ZExt(yt, k.w)
			}
			cnt = C.Ite(big, C.Const(uint64(k.w), k.w), narrow)
		}
		var o sym.Op
		switch {
		case op == token.SHL:
			o = sym.OShl
		case k.signed:
			o = sym.OAShr
		default:
			o = sym.OLShr
		}
		return simp(C.Bin(o, xt, cnt), k)
	}
	yt := r.term(y, k)
	switch op {
	case token.ADD:
		return simp(C.Bin(sym.OAdd, xt, yt), k)
	case token.SUB:
		return simp(C.Bin(sym.OSub, xt, yt), k)
	case token.MUL:
		return simp(C.Bin(sym.OMul, xt, yt), k)
	case token.QUO, token.REM:
		zero := C.Eq(yt, C.Const(0, k.w))
		if r.Branch(zero, r.siteOf(g)) {
			r.panicRuntime(g, "integer divide by zero")
		}
		var o sym.Op
		switch {
		case op == token.QUO && k.signed:
			o = sym.OSDiv
		case op == token.QUO:
			o = sym.OUDiv
		case k.signed:
			o = sym.OSRem
		default:
			o = sym.OURem
		}
		return simp(C.Bin(o, xt, yt), k)
	case token.AND:
		return simp(C.Bin(sym.OBAnd, xt, yt), k)
	case token.OR:
		return simp(C.Bin(sym.OBOr, xt, yt), k)
	case token.XOR:
		return simp(C.Bin(sym.OBXor, xt, yt), k)
	case token.AND_NOT:
		return simp(C.Bin(sym.OBAnd, xt, C.BNot(yt)), k)
	case token.LSS:
		if k.signed {
			return simpBool(C.Slt(xt, yt))
		}
		return simpBool(C.Ult(xt, yt))
	case token.LEQ:
		if k.signed {
			return simpBool(C.Sle(xt, yt))
		}
		return simpBool(C.Ule(xt, yt))
	case token.GTR:
		if k.signed {
			return simpBool(C.Slt(yt, xt))
		}
		return simpBool(C.Ult(yt, xt))
	case token.GEQ:
		if k.signed {
			return simpBool(C.Sle(yt, xt))
		}
		return simpBool(C.Ule(yt, xt))
	}
	r.abort("intBinop %v", op)
	return nil
}

func (r *Run) concreteIntBinop(g *Goroutine, op token.Token, k, yk ikind, x, y uint64) Value {
	switch op {
	case token.ADD:
		return k.norm(x + y)
	case token.SUB:
		return k.norm(x - y)
	case token.MUL:
		return k.norm(x * y)
	case token.QUO:
		if y == 0 {
			r.panicRuntime(g, "integer divide by zero")
		}
		if k.signed {
			if int64(y) == -1 {
				return k.norm(uint64(-int64(x)))
			}
			return k.norm(uint64(int64(x) / int64(y)))
		}
		return k.norm(x / y)
	case token.REM:
		if y == 0 {
			r.panicRuntime(g, "integer divide by zero")
		}
		if k.signed {
			if int64(y) == -1 {
				return uint64(0)
			}
			return k.norm(uint64(int64(x) % int64(y)))
		}
		return k.norm(x % y)
	case token.AND:
		return k.norm(x & y)
	case token.OR:
		return k.norm(x | y)
	case token.XOR:
		return k.norm(x ^ y)
	case token.AND_NOT:
		return k.norm(x &^ y)
	case token.SHL:
		if yk.signed && int64(y) < 0 {
			r.panicRuntime(g, "negative shift amount")
		}
		if y >= 64 {
			return uint64(0)
		}
		return k.norm(x << y)
	case token.SHR:
		if yk.signed && int64(y) < 0 {
			r.panicRuntime(g, "negative shift amount")
		}
		if k.signed {
			if y >= 64 {
				y = 63
			}
			return k.norm(uint64(int64(x) >> y))
		}
		if y >= 64 {
			return uint64(0)
		}
		return k.norm(x >> y)
	case token.LSS:
		if k.signed {
			return int64(x) < int64(y)
		}
		return x < y
	case token.LEQ:
		if k.signed {
			return int64(x) <= int64(y)
		}
		return x <= y
	case token.GTR:
		if k.signed {
			return int64(x) > int64(y)
		}
		return x > y
	case token.GEQ:
		if k.signed {
			return int64(x) >= int64(y)
		}
		return x >= y
	}
	r.abort("concreteIntBinop %v", op)
	return nil
}

// unop implements NOT, SUB, XOR (MUL and ARROW are handled by the caller).
func (r *Run) unop(op token.Token, t types.Type, x Value) Value {
	if _, ok := x.(Opaque); ok {
		return x
	}
	switch op {
	case token.NOT:
		return r.notValue(x)
	case token.SUB:
		switch x := x.(type) {
		case uint64:
			return intKindOf(t).norm(-x)
		case float64:
			return -x
		case *sym.Term:
			return simp(r.C.Neg(x), intKindOf(t))
		}
	case token.XOR:
		switch x := x.(type) {
		case uint64:
			return intKindOf(t).norm(^x)
		case *sym.Term:
			return simp(r.C.BNot(x), intKindOf(t))
		}
	}
	r.abort("unop %v on %T", op, x)
	return nil
}

// equalValues implements == for every comparable type; the result is a bool or a Bool term.
func (r *Run) equalValues(x, y Value) Value {
	switch x := x.(type) {
	case uint64:
		switch y := y.(type) {
		case uint64:
			return x == y
		case *sym.Term:
			return simpBool(r.C.Eq(y, r.C.Const(x, y.W)))
		}
	case *sym.Term:
		switch y := y.(type) {
		case uint64:
			return simpBool(r.C.Eq(x, r.C.Const(y, x.W)))
		case bool:
			return simpBool(r.C.Eq(x, r.C.Bool(y)))
		case *sym.Term:
			return simpBool(r.C.Eq(x, y))
		}
	case bool:
		switch y := y.(type) {
		case bool:
			return x == y
		case *sym.Term:
			return simpBool(r.C.Eq(y, r.C.Bool(x)))
		}
	case string:
		return x == y.(string)
	case float64:
		return x == y.(float64)
	case *Value:
		return x == y.(*Value)
	case *Map:
		return x == y.(*Map)
	case *Chan:
		return x == y.(*Chan)
	case Iface:
		yi, ok := y.(Iface)
		if !ok {
			r.abort("comparing interface with %T", y)
		}
		if x.T == nil || yi.T == nil {
			return x.T == nil && yi.T == nil
		}
		if !types.Identical(x.T, yi.T) {
			return false
		}
		if !types.Comparable(x.T) {
			panic(targetPanic{v: r.runtimeError("comparing uncomparable type " + x.T.String())})
		}
		return r.equalValues(x.V, yi.V)
	case Struct:
		y := y.(Struct)
		acc := r.C.True
		for i := range x {
			e := r.equalValues(x[i], y[i])
			acc = r.C.And(acc, r.boolTerm(e))
			if acc == r.C.False {
				return false
			}
		}
		return simpBool(acc)
	case Array:
		y := y.(Array)
		acc := r.C.True
		for i := range x {
			e := r.equalValues(x[i], y[i])
			acc = r.C.And(acc, r.boolTerm(e))
			if acc == r.C.False {
				return false
			}
		}
		return simpBool(acc)
	case Slice:
		// only comparison with nil is legal
		if ys, ok := y.(Slice); ok {
			if ys.Data == nil {
				return x.Data == nil
			}
			if x.Data == nil {
				return ys.Data == nil
			}
		}
	case Opaque:
		r.abort("comparison of untracked value (%s)", x.Why)
	default:
		// function values: only nil comparisons
		return isNilFunc(x) && isNilFunc(y)
	}
	r.abort("equalValues: %T vs %T", x, y)
	return nil
}

func isNilFunc(v Value) bool {
	switch v := v.(type) {
	case nil:
		return true
	case *ssaFunction:
		return v == nil
	case *Closure:
		return v == nil
	case *Native:
		return v == nil
	}
	return false
}

// conv implements ssa.Convert.
func (r *Run) conv(src, dst types.Type, x Value) Value {
	us, ud := src.Underlying(), dst.Underlying()
	if _, ok := x.(Opaque); ok {
		return x
	}
	switch ud := ud.(type) {
	case *types.Pointer:
		// unsafe.Pointer -> *T
		return x
	case *types.Slice:
		// string -> []byte / []rune
		s, ok := x.(string)
		if !ok {
			r.abort("conversion of %T to slice", x)
		}
		eb, _ := ud.Elem().Underlying().(*types.Basic)
		if eb != nil && eb.Kind() == types.Int32 {
			rs := []rune(s)
			d := make([]Value, len(rs))
			for i, c := range rs {
				d[i] = uint64(int64(c))
			}
			return Slice{Data: d, Len: len(d)}
		}
		d := make([]Value, len(s))
		for i := 0; i < len(s); i++ {
			d[i] = uint64(s[i])
		}
		return Slice{Data: d, Len: len(d)}
	case *types.Basic:
		if ud.Kind() == types.UnsafePointer {
			return x
		}
		if ud.Info()&types.IsString != 0 {
			switch x := x.(type) {
			case string:
				return x
			case uint64:
				return string(rune(int64(x)))
			case Slice:
				eb, _ := us.(*types.Slice).Elem().Underlying().(*types.Basic)
				if eb != nil && eb.Kind() == types.Int32 {
					rs := make([]rune, x.Len)
					for i := 0; i < x.Len; i++ {
						c, ok := x.Data[i].(uint64)
						if !ok {
							r.abort("string([]rune) with symbolic content")
						}
						rs[i] = rune(c)
					}
					return string(rs)
				}
				return r.bytesToString(x)
			case *sym.Term:
				r.abort("string(symbolic integer)")
			}
		}
		dk := intKindOf(dst)
		if dk.w != 0 {
			switch x := x.(type) {
			case uint64:
				return dk.norm(x)
			case float64:
				if dk.signed {
					return dk.norm(uint64(int64(x)))
				}
				if x < 0 {
					return dk.norm(uint64(int64(x)))
				}
				return dk.norm(uint64(x))
			case *sym.Term:
				sk := intKindOf(src)
				var t *sym.Term
				switch {
				case dk.w == sk.w:
					t = x
				case dk.w < sk.w:
					t = r.C.Extract(x, 0, dk.w)
				case sk.signed:
					t = r.C.SExt(x, dk.w)
				default:
					t = r.C.ZExt(x, dk.w)
				}
				return simp(t, dk)
			case *Value:
				// pointer -> uintptr : not tracked
				return Opaque{"uintptr(pointer)"}
			}
		}
		if ud.Info()&types.IsFloat != 0 {
			rnd := func(f float64) Value {
				if ud.Kind() == types.Float32 {
					return float64(float32(f))
				}
				return f
			}
			switch x := x.(type) {
			case float64:
				return rnd(x)
			case uint64:
				if intKindOf(src).signed {
					return rnd(float64(int64(x)))
				}
				return rnd(float64(x))
			case *sym.Term:
				return Opaque{"float(symbolic int)"}
			}
		}
		if ud.Info()&types.IsComplex != 0 {
			return Opaque{"complex"}
		}
	}
	r.abort("unsupported conversion %v -> %v (%T)", src, dst, x)
	return nil
}

// bytesToString converts a []byte value with concrete content to a string.
func (r *Run) bytesToString(s Slice) string {
	b := make([]byte, s.Len)
	for i := 0; i < s.Len; i++ {
		c, ok := s.Data[i].(uint64)
		if !ok {
			r.abort("string([]byte) with symbolic content")
		}
		b[i] = byte(c)
	}
	return string(b)
}

func stringToSlice(s string) Slice {
	d := make([]Value, len(s))
	for i := 0; i < len(s); i++ {
		d[i] = uint64(s[i])
	}
	return Slice{Data: d, Len: len(d)}
}

func bytesToSlice(b []byte) Slice {
	d := make([]Value, len(b))
	for i := range b {
		d[i] = uint64(b[i])
	}
	return Slice{Data: d, Len: len(d)}
}

// concreteBytes extracts concrete bytes; ok=false if any is symbolic.
func concreteBytes(s Slice) ([]byte, bool) {
	b := make([]byte, s.Len)
	for i := 0; i < s.Len; i++ {
		c, ok := s.Data[i].(uint64)
		if !ok {
			return nil, false
		}
		b[i] = byte(c)
	}
	return b, true
}

func asInt(v Value) (int64, bool) {
	u, ok := v.(uint64)
	return int64(u), ok
}

var _ = math.MaxInt64
var _ = utf8.RuneError
