package interp

import (
	"fmt"
	"go/constant"
	"go/types"
	"strings"

	"gosym/sym"

	"golang.org/x/tools/go/ssa"
)

// Value is a target-program value. Representations:
//
//	bool                      concrete bool
//	uint64                    concrete integer of any Go integer type, canonical:
//	                          zero-extended (unsigned) / sign-extended (signed) to 64 bits
//	*sym.Term                 symbolic bool (W==0) or integer (W==width of the Go type)
//	float64                   concrete float (float32 is rounded on conversion)
//	string                    concrete string
//	*Value                    pointer (nil pointer = (*Value)(nil))
//	Struct, Array             aggregates (copied on load/store)
//	Slice                     slice header over []Value
//	*Map, *Chan               reference types
//	Iface                     interface value (T==nil means nil interface)
//	*ssa.Function, *Closure, *ssa.Builtin, *Native   function values
//	Tuple                     multiple results
type Value = any

type Struct []Value
type Array []Value
type Tuple []Value

// Slice mirrors a Go slice header. Data==nil && !NonNil means the nil slice.
type Slice struct {
	Data []Value // backing store from the slice's first element (len(Data) == cap)
	Len  int
}

func (s Slice) Cap() int    { return len(s.Data) }
func (s Slice) IsNil() bool { return s.Data == nil }

type Iface struct {
	T types.Type
	V Value
}

type Closure struct {
	Fn  *ssa.Function
	Env []Value
}

// Native is a function value implemented by the engine.
type Native struct {
	Name string
	Fn   func(g *Goroutine, args []Value) Value
}

// Opaque is a value the engine does not track (e.g. a float derived from a
// symbolic integer). Branching on it is an engine error.
type Opaque struct{ Why string }

type ikind struct {
	w      uint8
	signed bool
}

func intKindOf(t types.Type) ikind {
	b, ok := t.Underlying().(*types.Basic)
	if !ok {
		return ikind{}
	}
	switch b.Kind() {
	case types.Int8:
		return ikind{8, true}
	case types.Int16:
		return ikind{16, true}
	case types.Int32:
		return ikind{32, true}
	case types.Int64, types.Int, types.UntypedInt, types.UntypedRune:
		return ikind{64, true}
	case types.Uint8:
		return ikind{8, false}
	case types.Uint16:
		return ikind{16, false}
	case types.Uint32:
		return ikind{32, false}
	case types.Uint64, types.Uint, types.Uintptr:
		return ikind{64, false}
	}
	return ikind{}
}

func maskW(w uint8) uint64 {
	if w >= 64 {
		return ^uint64(0)
	}
	return (uint64(1) << w) - 1
}

// norm puts a 64-bit pattern into canonical form for kind k.
func (k ikind) norm(v uint64) uint64 {
	if k.w >= 64 {
		return v
	}
	if k.signed {
		sh := 64 - uint(k.w)
		return uint64(int64(v<<sh) >> sh)
	}
	return v & maskW(k.w)
}

func isFloatType(t types.Type) bool {
	b, ok := t.Underlying().(*types.Basic)
	return ok && b.Info()&types.IsFloat != 0
}

func isStringType(t types.Type) bool {
	b, ok := t.Underlying().(*types.Basic)
	return ok && b.Info()&types.IsString != 0
}

func isBoolType(t types.Type) bool {
	b, ok := t.Underlying().(*types.Basic)
	return ok && b.Info()&types.IsBoolean != 0
}

// zero returns the zero value of type t.
func zero(t types.Type) Value {
	switch t := t.(type) {
	case *types.Basic:
		if t.Kind() == types.UntypedNil {
			return Iface{}
		}
		switch {
		case t.Info()&types.IsBoolean != 0:
			return false
		case t.Info()&types.IsInteger != 0:
			return uint64(0)
		case t.Info()&types.IsFloat != 0:
			return float64(0)
		case t.Info()&types.IsString != 0:
			return ""
		case t.Kind() == types.UnsafePointer:
			return (*Value)(nil)
		case t.Info()&types.IsComplex != 0:
			return Opaque{"complex"}
		}
		panic(fmt.Sprintf("zero: basic %v", t))
	case *types.Pointer:
		return (*Value)(nil)
	case *types.Array:
		a := make(Array, t.Len())
		for i := range a {
			a[i] = zero(t.Elem())
		}
		return a
	case *types.Slice:
		return Slice{}
	case *types.Struct:
		s := make(Struct, t.NumFields())
		for i := range s {
			s[i] = zero(t.Field(i).Type())
		}
		return s
	case *types.Tuple:
		if t.Len() == 1 {
			return zero(t.At(0).Type())
		}
		s := make(Tuple, t.Len())
		for i := range s {
			s[i] = zero(t.At(i).Type())
		}
		return s
	case *types.Chan:
		return (*Chan)(nil)
	case *types.Map:
		return (*Map)(nil)
	case *types.Signature:
		return (*ssa.Function)(nil)
	case *types.Interface:
		return Iface{}
	case *types.Named:
		return zero(t.Underlying())
	case *types.Alias:
		return zero(types.Unalias(t))
	case *types.TypeParam:
		panic("zero of type parameter (generic body not instantiated)")
	}
	panic(fmt.Sprintf("zero: unexpected type %T %v", t, t))
}

// copyVal deep-copies aggregates; everything else is immutable or a reference.
func copyVal(v Value) Value {
	switch v := v.(type) {
	case Struct:
		n := make(Struct, len(v))
		for i, x := range v {
			n[i] = copyVal(x)
		}
		return n
	case Array:
		n := make(Array, len(v))
		for i, x := range v {
			n[i] = copyVal(x)
		}
		return n
	}
	return v
}

func constValue(c *ssa.Const) Value {
	t := c.Type()
	if c.Value == nil {
		return zero(t)
	}
	if b, ok := t.Underlying().(*types.Basic); ok {
		switch {
		case b.Info()&types.IsBoolean != 0:
			return constant.BoolVal(c.Value)
		case b.Info()&types.IsInteger != 0:
			k := intKindOf(t)
			if k.signed {
				i, _ := constant.Int64Val(constant.ToInt(c.Value))
				return k.norm(uint64(i))
			}
			u, _ := constant.Uint64Val(constant.ToInt(c.Value))
			return k.norm(u)
		case b.Info()&types.IsFloat != 0:
			f, _ := constant.Float64Val(c.Value)
			if b.Kind() == types.Float32 {
				return float64(float32(f))
			}
			return f
		case b.Info()&types.IsString != 0:
			if c.Value.Kind() == constant.String {
				return constant.StringVal(c.Value)
			}
			// string(rune const)
			i, _ := constant.Int64Val(constant.ToInt(c.Value))
			return string(rune(i))
		case b.Info()&types.IsComplex != 0:
			return Opaque{"complex"}
		}
	}
	if _, ok := t.Underlying().(*types.Interface); ok {
		return Iface{}
	}
	panic(fmt.Sprintf("constValue: unexpected %v : %v", c, t))
}

// isSymbolic reports whether v (shallowly) is a symbolic scalar.
func isSym(v Value) bool {
	_, ok := v.(*sym.Term)
	return ok
}

// containsSym reports whether v contains any symbolic scalar (deep on aggregates,
// not following pointers).
func containsSym(v Value) bool {
	switch v := v.(type) {
	case *sym.Term:
		return true
	case Struct:
		for _, x := range v {
			if containsSym(x) {
				return true
			}
		}
	case Array:
		for _, x := range v {
			if containsSym(x) {
				return true
			}
		}
	case Iface:
		return containsSym(v.V)
	}
	return false
}

// describe renders a value for diagnostics.
func describe(v Value) string {
	switch v := v.(type) {
	case nil:
		return "<nil>"
	case bool, uint64, float64:
		return fmt.Sprint(v)
	case string:
		return fmt.Sprintf("%q", v)
	case *sym.Term:
		s := v.String()
		if len(s) > 80 {
			s = s[:80] + "..."
		}
		return "sym:" + s
	case *Value:
		if v == nil {
			return "nil-ptr"
		}
		return fmt.Sprintf("&%p", v)
	case Struct:
		var sb strings.Builder
		sb.WriteString("{")
		for i, x := range v {
			if i > 0 {
				sb.WriteString(" ")
			}
			if i > 8 {
				sb.WriteString("...")
				break
			}
			sb.WriteString(describe(x))
		}
		sb.WriteString("}")
		return sb.String()
	case Array:
		return fmt.Sprintf("array[%d]", len(v))
	case Slice:
		if v.IsNil() {
			return "nil-slice"
		}
		var sb strings.Builder
		fmt.Fprintf(&sb, "slice[%d/%d](", v.Len, v.Cap())
		for i := 0; i < v.Len && i < 16; i++ {
			if i > 0 {
				sb.WriteString(" ")
			}
			sb.WriteString(describe(v.Data[i]))
		}
		sb.WriteString(")")
		return sb.String()
	case Iface:
		if v.T == nil {
			return "nil-iface"
		}
		return fmt.Sprintf("iface(%v:%s)", v.T, describe(v.V))
	case Tuple:
		var sb strings.Builder
		sb.WriteString("(")
		for i, x := range v {
			if i > 0 {
				sb.WriteString(", ")
			}
			sb.WriteString(describe(x))
		}
		sb.WriteString(")")
		return sb.String()
	case *ssa.Function:
		if v == nil {
			return "nil-func"
		}
		return "func " + v.String()
	case *Closure:
		return "closure " + v.Fn.String()
	}
	return fmt.Sprintf("%T", v)
}
