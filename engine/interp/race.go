package interp

// SMT predictive race query (after Said et al. / RVPredict): the events of one
// explored path (shared-memory accesses and the synchronisation skeleton) get
// integer order variables; program order, fork, channel pairing (k-th receive
// after k-th send; for an unbuffered channel the receive starts before the send
// completes; for capacity C the (k+C)-th send completes after the k-th receive),
// close-before-receive-of-closed, WaitGroup and Once edges are strict
// inequalities, and mutual exclusion of critical sections is the disjunction of
// the two orders. Two conflicting accesses from different goroutines race iff
// the solver finds the constraints satisfiable together with o[a] = o[b]
// (nothing orders them in some consistent re-ordering of the observed trace).

import (
	"bufio"
	"fmt"
	"os"
	"os/exec"
	"sort"
	"strings"
	"time"
)

type raceEvent struct {
	g    int
	kind uint8 // 0 read, 1 write, 2 sync
	obj  any   // cell pointer / *Map for accesses
	site string
	fn   string
	atom bool // access through sync/atomic
}

type critSection struct {
	acq, rel int
	g        int
}

type raceState struct {
	ev      []raceEvent
	last    map[int]int // goroutine -> last relevant event
	edges   [][2]int    // a happens-before b
	locks   map[any][]critSection
	open    map[any]map[int]int // mutex -> goroutine -> acquire event of the open section
	wgDone  map[any][]int
	onceEnd map[any]int
}

// RaceFinding is one pair of conflicting accesses the solver could not order.
type RaceFinding struct {
	A, B   string
	FuncA  string
	FuncB  string
	Object string
}

func (r *Run) raceInit() {
	r.race = &raceState{last: map[int]int{}, locks: map[any][]critSection{}, open: map[any]map[int]int{}, wgDone: map[any][]int{}, onceEnd: map[any]int{}}
}

// newEvent appends an event of goroutine g with a program-order edge from its previous event.
func (r *Run) newEvent(g *Goroutine, kind uint8, obj any, atom bool) int {
	rs := r.race
	id := len(rs.ev)
	e := raceEvent{g: g.id, kind: kind, obj: obj, atom: atom}
	if g.top != nil {
		e.site = g.top.site()
		e.fn = g.top.fn.String()
	}
	rs.ev = append(rs.ev, e)
	if p, ok := rs.last[g.id]; ok {
		rs.edges = append(rs.edges, [2]int{p, id})
	}
	rs.last[g.id] = id
	return id
}

func (r *Run) memEvent(g *Goroutine, obj any, write bool) {
	if r.race == nil || g == nil || r.raceOff {
		return
	}
	k := uint8(0)
	if write {
		k = 1
	}
	r.newEvent(g, k, obj, false)
}

func (r *Run) syncEvent(g *Goroutine) int {
	if r.race == nil || g == nil {
		return -1
	}
	return r.newEvent(g, 2, nil, false)
}

func (r *Run) hb(a, b int) {
	if r.race != nil && a >= 0 && b >= 0 {
		r.race.edges = append(r.race.edges, [2]int{a, b})
	}
}

func (r *Run) lockAcquired(g *Goroutine, m any) {
	if r.race == nil {
		return
	}
	id := r.syncEvent(g)
	if r.race.open[m] == nil {
		r.race.open[m] = map[int]int{}
	}
	r.race.open[m][g.id] = id
}

func (r *Run) lockReleased(g *Goroutine, m any) {
	if r.race == nil {
		return
	}
	id := r.syncEvent(g)
	if acq, ok := r.race.open[m][g.id]; ok {
		r.race.locks[m] = append(r.race.locks[m], critSection{acq: acq, rel: id, g: g.id})
		delete(r.race.open[m], g.id)
	}
}

// atomicAccess: an atomic operation is a one-event critical section on a pseudo lock per address.
func (r *Run) atomicAccess(g *Goroutine, p *Value, write bool) {
	if r.race == nil {
		return
	}
	key := atomicKey{p}
	r.lockAcquired(g, key)
	k := uint8(0)
	if write {
		k = 1
	}
	r.newEvent(g, k, p, true)
	r.lockReleased(g, key)
}

type atomicKey struct{ p *Value }

// analyzeRaces runs the solver over the recorded trace and returns the unordered conflicting pairs.
func (r *Run) analyzeRaces(maxPairs int) ([]RaceFinding, int, float64, string) {
	rs := r.race
	if rs == nil {
		return nil, 0, 0, ""
	}
	t0 := time.Now()
	// shared objects: accessed by >= 2 goroutines with at least one write
	type acc struct{ ids []int }
	byObj := map[any]*acc{}
	for i, e := range rs.ev {
		if e.kind <= 1 {
			a := byObj[e.obj]
			if a == nil {
				a = &acc{}
				byObj[e.obj] = a
			}
			a.ids = append(a.ids, i)
		}
	}
	type pair struct{ a, b int }
	var pairs []pair
	relevant := map[int]bool{}
	for _, a := range byObj {
		gs := map[int]bool{}
		w := false
		for _, i := range a.ids {
			gs[rs.ev[i].g] = true
			if rs.ev[i].kind == 1 {
				w = true
			}
		}
		if len(gs) < 2 || !w {
			continue
		}
		// candidate pairs: per pair of sites up to 6 pairs, closest in the observed trace first
		type cand struct{ a, b, dist int }
		bySites := map[string][]cand{}
		for x := 0; x < len(a.ids); x++ {
			for y := x + 1; y < len(a.ids); y++ {
				ea, eb := rs.ev[a.ids[x]], rs.ev[a.ids[y]]
				if ea.g == eb.g || (ea.kind == 0 && eb.kind == 0) || (ea.atom && eb.atom) {
					continue
				}
				key := ea.site + "|" + eb.site
				bySites[key] = append(bySites[key], cand{a.ids[x], a.ids[y], a.ids[y] - a.ids[x]})
			}
		}
		for _, cs := range bySites {
			sort.Slice(cs, func(i, j int) bool { return cs[i].dist < cs[j].dist })
			if len(cs) > 6 {
				cs = cs[:6]
			}
			for _, c := range cs {
				pairs = append(pairs, pair{c.a, c.b})
				relevant[c.a] = true
				relevant[c.b] = true
			}
		}
	}
	if debugOn {
		fmt.Fprintf(os.Stderr, "race analysis: %d events, %d objects, %d candidate pairs, %d edges\n", len(rs.ev), len(byObj), len(pairs), len(rs.edges))
	}
	if len(pairs) == 0 {
		return nil, 0, time.Since(t0).Seconds(), ""
	}
	if len(pairs) > maxPairs {
		pairs = pairs[:maxPairs]
	}
	// keep sync events and the accesses under question; contract program order over the rest
	keep := map[int]bool{}
	for i, e := range rs.ev {
		if e.kind == 2 || relevant[i] {
			keep[i] = true
		}
	}
	for _, e := range rs.edges {
		_ = e
	}
	// program order among kept events (edges between consecutive events of a goroutine are in rs.edges
	// as (prev,id); rebuild them over kept events only), plus all cross edges between kept events
	lastKept := map[int]int{}
	var cons []string
	for i, e := range rs.ev {
		if !keep[i] {
			continue
		}
		if p, ok := lastKept[e.g]; ok {
			cons = append(cons, fmt.Sprintf("(< o%d o%d)", p, i))
		}
		lastKept[e.g] = i
	}
	for _, ed := range rs.edges {
		a, b := ed[0], ed[1]
		if rs.ev[a].g == rs.ev[b].g {
			continue // program order handled above
		}
		if keep[a] && keep[b] {
			cons = append(cons, fmt.Sprintf("(< o%d o%d)", a, b))
		}
	}
	for _, secs := range rs.locks {
		for x := 0; x < len(secs); x++ {
			for y := x + 1; y < len(secs); y++ {
				if secs[x].g == secs[y].g {
					continue
				}
				cons = append(cons, fmt.Sprintf("(or (< o%d o%d) (< o%d o%d))", secs[x].rel, secs[y].acq, secs[y].rel, secs[x].acq))
			}
		}
	}
	var ids []int
	for i := range keep {
		ids = append(ids, i)
	}
	sort.Ints(ids)
	var sb strings.Builder
	for _, i := range ids {
		fmt.Fprintf(&sb, "(declare-const o%d Int)\n", i)
	}
	for _, c := range cons {
		sb.WriteString("(assert " + c + ")\n")
	}
	for _, p := range pairs {
		fmt.Fprintf(&sb, "(push 1)\n(assert (= o%d o%d))\n(check-sat)\n(pop 1)\n", p.a, p.b)
	}
	if debugOn {
		os.WriteFile("/tmp/race.smt2", []byte(sb.String()), 0o644)
		for _, p := range pairs {
			fmt.Fprintf(os.Stderr, "  pair g%d %s %s  <->  g%d %s %s\n", rs.ev[p.a].g, rs.ev[p.a].site, shortFn(rs.ev[p.a].fn), rs.ev[p.b].g, rs.ev[p.b].site, shortFn(rs.ev[p.b].fn))
		}
	}
	cmd := exec.Command("z3-new", "-in", "-smt2", "-T:120")
	cmd.Stdin = strings.NewReader(sb.String())
	out, err := cmd.Output()
	if err != nil && len(out) == 0 {
		return nil, len(pairs), time.Since(t0).Seconds(), "race solver failed: " + err.Error()
	}
	var findings []RaceFinding
	sc := bufio.NewScanner(strings.NewReader(string(out)))
	k := 0
	problem := ""
	for sc.Scan() {
		line := strings.TrimSpace(sc.Text())
		switch line {
		case "sat":
			if k < len(pairs) {
				ea, eb := rs.ev[pairs[k].a], rs.ev[pairs[k].b]
				findings = append(findings, RaceFinding{A: ea.site, B: eb.site, FuncA: ea.fn, FuncB: eb.fn, Object: fmt.Sprintf("%T", ea.obj)})
			}
			k++
		case "unsat":
			k++
		case "unknown":
			k++
			problem = "race query unknown"
		default:
			if strings.HasPrefix(line, "(error") {
				problem = line
			}
		}
	}
	if k != len(pairs) && problem == "" {
		problem = fmt.Sprintf("race solver answered %d of %d queries", k, len(pairs))
	}
	return findings, len(pairs), time.Since(t0).Seconds(), problem
}
