#!/usr/bin/env python3
import json
def sc(name,W,T): return [{"set":name,"file":"pwr/overlay/overlay_writer.go","ident":"overlayBufSize","value":str(W)},
                          {"set":name,"file":"pwr/overlay/overlay_writer.go","ident":"overlaySameThreshold","value":str(T)}]
scale=sc("w8",8,2)+sc("w6",6,1)+sc("w9",9,3)+sc("w4",4,1)
Q=["quick","thorough"];T=["thorough"]
def grid(olds,news,patterns): return [{"nold":a,"nnew":b,"chunk":c,"flush":f,"resume":r} for a in olds for b in news for (c,f,r) in patterns]
H=[{"name":"H_witness","tiers":Q,"expect":"violation","bounds":"vacuity witness"}]
H.append({"name":"H_overlay","tiers":Q,"scale":"w4","bounds":"window W=4, threshold T=1: old,new 0..2W+2 fully symbolic (all equality patterns), single write / 1-byte writes / 3-byte writes with flush+resume",
  "param_sets":grid(range(0,11,2),range(0,11),[(0,0,0)])+grid([0,3,6,9],[0,2,5,7,10],[(1,2,0),(3,1,1),(5,1,2)])})
H.append({"name":"H_overlay","tiers":Q,"scale":"w8","bounds":"W=8, T=2: old,new in {0,5,9,10}, single write and 3-byte writes with flush after each and resume after the 2nd flush",
  "param_sets":grid([0,5,9,10],[0,5,9,10],[(0,0,0),(3,1,2)])})
H.append({"name":"H_overlay","tiers":Q,"scale":"w4","bounds":"W=4,T=1: a session resumed from a checkpoint taken before the first write (and for an empty new file), old,new in 0..5",
  "param_sets":[dict(p,pre=1) for p in grid(range(0,6),range(0,6),[(0,0,0),(2,1,1)])]})
H.append({"name":"H_bowl","tiers":Q,"scale":"w4","bounds":"W=4,T=1 through the overlay BOWL's entry writer (GetWriter / Resume / Write / Save / Finalize / Commit, checkpoints through gob into a brand-new bowl): old,new fully symbolic in {3,6,9}, 3-byte and 2-byte writes, resume after the 1st or 2nd write or never",
  "param_sets":[{"nold":a,"nnew":b,"chunk":c,"resume":r} for a in (3,6,9) for b in (3,6,9) for (c,r) in ((3,0),(3,1),(3,2),(2,2))]})
H.append({"name":"H_bowl","tiers":Q,"scale":"w4","bounds":"the same with a 96-byte concrete old file and 5..6 symbolic new bytes after the resume point (equal to any stretch of the old file if the solver wants)",
  "param_sets":[{"nold":96,"nnew":n,"chunk":3,"resume":1,"long":1} for n in (8,9)]+[{"nold":96,"nnew":9,"chunk":2,"resume":2,"long":1}]})
H.append({"name":"H_overlay","tiers":Q,"max_steps":2000000000,"bounds":"REGIME R (no constant scaled: 128 KiB window, 8 KiB threshold): old 300000 bytes concrete; new = old cut to 250000 / extended to 310000 with a 3000-byte fresh stretch at 1000 or inside the second window, and two symbolic bytes 8192 bytes after it; single write and 100000-byte writes with flush and resume",
  "param_sets":[{"nold":300000,"nnew":n,"chunk":c,"flush":f,"resume":r,"real":at} for n in (250000,310000) for at in (1000,131072+500) for (c,f,r) in ((0,0,0),(100000,1,1))]})
H.append({"name":"H_overlay","tiers":T,"scale":"w4","bounds":"W=4,T=1: every old,new in 0..2W+3, chunk in {1,2,3,5,all}, flush in {0,1,2}, resume in {0,1,2}","max_seconds":1200,
  "param_sets":grid(range(0,12),range(0,12),[(c,f,r) for c in (0,1,2,3,5) for f in (0,1,2) for r in (0,1,2) if not (f==0 and r>0)])})
H.append({"name":"H_overlay","tiers":T,"scale":"w6","bounds":"W=6,T=1: old,new 0..W+3, chunk in {1,4,7,all}","max_seconds":1200,
  "param_sets":grid(range(0,10),range(0,10),[(0,0,0),(1,3,1),(4,1,1),(7,1,0)])})
H.append({"name":"H_overlay","tiers":T,"scale":"w9","bounds":"W=9,T=3: old,new in {0,4,9,10,12}, chunk in {all,5}","max_seconds":1200,
  "param_sets":grid([0,4,9,10,12],[0,4,9,10,12],[(0,0,0),(5,1,1)])})
json.dump({"property":"C14","package":"c14","scale":scale,"harnesses":H,
 "stubs":["protobuf/wire -> tag-faithful codec model","old-file reader = bytes.Reader (full reads unless EOF, like *os.File)"],
 "outside":["the real 128 KiB window / 8 KiB threshold (declared values scaled; uses are the real code)","lengths beyond 2W+3","readers returning short reads before EOF"]},open("config.json","w"),indent=1)
for h in H: print(h["name"],h["tiers"],h.get("scale"),len(h.get("param_sets",[1])))
