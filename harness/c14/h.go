// Package c14: an overlay turns the old file into the new file, whatever the write pattern.
package c14

import (
	"bytes"
	"io"

	"github.com/itchio/savior/seeksource"
	"github.com/itchio/wharf/pwr/overlay"
	"github.com/itchio/wharf/zzverif/hlib"
	"github.com/itchio/wharf/zzverif/rt"
)

func H_witness() {
	a := rt.Byte("a")
	rt.Assert(a != 9, "witness")
	rt.Reach("end")
}

// memFile is an in-memory io.WriteSeeker over a copy of the old content.
type memFile struct {
	data []byte
	pos  int64
}

func (m *memFile) Write(p []byte) (int, error) {
	for int64(len(m.data)) < m.pos {
		m.data = append(m.data, 0)
	}
	for i, c := range p {
		q := m.pos + int64(i)
		if q < int64(len(m.data)) {
			m.data[q] = c
		} else {
			m.data = append(m.data, c)
		}
	}
	m.pos += int64(len(p))
	return len(p), nil
}

func (m *memFile) Seek(off int64, whence int) (int64, error) {
	switch whence {
	case io.SeekStart:
		m.pos = off
	case io.SeekCurrent:
		m.pos += off
	case io.SeekEnd:
		m.pos = int64(len(m.data)) + off
	}
	return m.pos, nil
}

// H_overlay. Params: nold, nnew; chunk (write size, 0 = everything at once);
// flush (flush after every k-th write, 0 = never); resume (restart a new session
// after the k-th flush, 0 = never).
func H_overlay() {
	nold, nnew := rt.Param("nold"), rt.Param("nnew")
	chunk, flushEvery, resumeAt := rt.Param("chunk"), rt.Param("flush"), rt.Param("resume")
	old := rt.Bytes("old", nold)
	neu := rt.Bytes("new", nnew)
	if chunk <= 0 {
		chunk = nnew + 1
	}

	var ovl bytes.Buffer
	ow, err := overlay.NewOverlayWriter(bytes.NewReader(old), 0, &ovl, 0)
	hlib.Must(err, "NewOverlayWriter")
	pos, writes, flushes := 0, 0, 0
	if rt.HasParam("pre") && rt.Param("pre") == 1 {
		// a checkpoint taken before any byte of new content was written, then a new session
		rt.Assert(ow.Flush() == nil, "Flush returns no error")
		ro, oo := ow.ReadOffset(), ow.OverlayOffset()
		rt.Assert(ro == 0, "nothing consumed before the first write")
		ovl.Truncate(int(oo))
		r := bytes.NewReader(old)
		r.Seek(ro, io.SeekStart)
		ow, err = overlay.NewOverlayWriter(r, ro, &ovl, oo)
		hlib.Must(err, "NewOverlayWriter (resumed before the first write)")
	}
	for pos < nnew {
		n := hlib.Min(chunk, nnew-pos)
		_, err := ow.Write(neu[pos : pos+n])
		rt.Assert(err == nil, "Write returns no error")
		pos += n
		writes++
		if flushEvery > 0 && writes%flushEvery == 0 {
			rt.Assert(ow.Flush() == nil, "Flush returns no error")
			flushes++
			rt.Assert(ow.ReadOffset() == int64(pos), "after a flush the read offset equals the bytes of new content consumed")
			if resumeAt > 0 && flushes == resumeAt {
				// a new session resumes from the offsets reported after the flush
				ro, oo := ow.ReadOffset(), ow.OverlayOffset()
				rt.Assert(oo == int64(ovl.Len()), "overlay offset equals the bytes of overlay written")
				ovl.Truncate(int(oo))
				r := bytes.NewReader(old)
				r.Seek(ro, io.SeekStart)
				ow, err = overlay.NewOverlayWriter(r, ro, &ovl, oo)
				hlib.Must(err, "NewOverlayWriter (resumed)")
				pos = int(ro)
			}
		}
	}
	rt.Assert(ow.Finalize() == nil, "Finalize returns no error")

	out := &memFile{data: append([]byte{}, old...)}
	src := seeksource.FromBytes(ovl.Bytes())
	_, err = src.Resume(nil)
	hlib.Must(err, "resume")
	perr := (&overlay.OverlayPatchContext{}).Patch(src, out)
	rt.Assert(perr == nil, "applying the overlay returns no error")
	rt.Assert(out.pos == int64(nnew), "final position equals the new length")
	if out.pos <= int64(len(out.data)) && out.pos >= 0 {
		rt.Assert(rt.BytesEqual(out.data[:out.pos], neu), "old + overlay, truncated at the final position, equals new")
	} else {
		rt.Fail("final position beyond the data")
	}
	rt.Reach("end")
}
