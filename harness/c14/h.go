// Package c14: an overlay turns the old file into the new file, whatever the write pattern.
package c14

import (
	"bytes"
	"io"
	"os"

	"github.com/itchio/lake/tlc"
	"github.com/itchio/savior/seeksource"
	"github.com/itchio/wharf/pwr/bowl"
	"github.com/itchio/wharf/pwr/overlay"
	"github.com/itchio/wharf/zzverif/hlib"
	"github.com/itchio/wharf/zzverif/rt"
)

func H_witness() {
	a := rt.Byte("a")
	rt.Assert(a != 9, "witness")
	rt.Reach("end")
}

// memFile is an in-memory io.WriteSeeker over a copy of the old content.
type memFile struct {
	data []byte
	pos  int64
}

func (m *memFile) Write(p []byte) (int, error) {
	for int64(len(m.data)) < m.pos {
		m.data = append(m.data, 0)
	}
	for i, c := range p {
		q := m.pos + int64(i)
		if q < int64(len(m.data)) {
			m.data[q] = c
		} else {
			m.data = append(m.data, c)
		}
	}
	m.pos += int64(len(p))
	return len(p), nil
}

func (m *memFile) Seek(off int64, whence int) (int64, error) {
	switch whence {
	case io.SeekStart:
		m.pos = off
	case io.SeekCurrent:
		m.pos += off
	case io.SeekEnd:
		m.pos = int64(len(m.data)) + off
	}
	return m.pos, nil
}

// H_overlay. Params: nold, nnew; chunk (write size, 0 = everything at once);
// flush (flush after every k-th write, 0 = never); resume (restart a new session
// after the k-th flush, 0 = never).
func H_overlay() {
	nold, nnew := rt.Param("nold"), rt.Param("nnew")
	chunk, flushEvery, resumeAt := rt.Param("chunk"), rt.Param("flush"), rt.Param("resume")
	old := rt.Bytes("old", nold)
	neu := rt.Bytes("new", nnew)
	if rt.HasParam("real") {
		// REGIME R (128 KiB window, 8 KiB threshold): concrete pseudo-random old; new = old (cut or extended to nnew)
		// with 3000 fresh bytes at `at`, and two symbolic bytes exactly 8192 and 8193 bytes after the fresh stretch:
		// whether they equal the old bytes decides if the equal run reaches the threshold
		x := uint32(31)
		for i := range old {
			x = x*1103515245 + 12345
			old[i] = byte(x >> 16)
		}
		for i := range neu {
			if i < nold {
				neu[i] = old[i]
			} else {
				neu[i] = byte(i)
			}
		}
		at := rt.Param("real")
		for i := at; i < at+3000 && i < nnew; i++ {
			neu[i] ^= 0x77
		}
		if at+3000+8193 < nnew {
			neu[at+3000+8192] = rt.Byte("s0")
			neu[at+3000+8193] = rt.Byte("s1")
		}
	}
	if chunk <= 0 {
		chunk = nnew + 1
	}

	var ovl bytes.Buffer
	ow, err := overlay.NewOverlayWriter(bytes.NewReader(old), 0, &ovl, 0)
	hlib.Must(err, "NewOverlayWriter")
	pos, writes, flushes := 0, 0, 0
	if rt.HasParam("pre") && rt.Param("pre") == 1 {
		// a checkpoint taken before any byte of new content was written, then a new session
		rt.Assert(ow.Flush() == nil, "Flush returns no error")
		ro, oo := ow.ReadOffset(), ow.OverlayOffset()
		rt.Assert(ro == 0, "nothing consumed before the first write")
		ovl.Truncate(int(oo))
		r := bytes.NewReader(old)
		r.Seek(ro, io.SeekStart)
		ow, err = overlay.NewOverlayWriter(r, ro, &ovl, oo)
		hlib.Must(err, "NewOverlayWriter (resumed before the first write)")
	}
	for pos < nnew {
		n := hlib.Min(chunk, nnew-pos)
		_, err := ow.Write(neu[pos : pos+n])
		rt.Assert(err == nil, "Write returns no error")
		pos += n
		writes++
		if flushEvery > 0 && writes%flushEvery == 0 {
			rt.Assert(ow.Flush() == nil, "Flush returns no error")
			flushes++
			rt.Assert(ow.ReadOffset() == int64(pos), "after a flush the read offset equals the bytes of new content consumed")
			if resumeAt > 0 && flushes == resumeAt {
				// a new session resumes from the offsets reported after the flush
				ro, oo := ow.ReadOffset(), ow.OverlayOffset()
				rt.Assert(oo == int64(ovl.Len()), "overlay offset equals the bytes of overlay written")
				ovl.Truncate(int(oo))
				r := bytes.NewReader(old)
				r.Seek(ro, io.SeekStart)
				ow, err = overlay.NewOverlayWriter(r, ro, &ovl, oo)
				hlib.Must(err, "NewOverlayWriter (resumed)")
				pos = int(ro)
			}
		}
	}
	rt.Assert(ow.Finalize() == nil, "Finalize returns no error")

	out := &memFile{data: append([]byte{}, old...)}
	src := seeksource.FromBytes(ovl.Bytes())
	_, err = src.Resume(nil)
	hlib.Must(err, "resume")
	perr := (&overlay.OverlayPatchContext{}).Patch(src, out)
	rt.Assert(perr == nil, "applying the overlay returns no error")
	rt.Assert(out.pos == int64(nnew), "final position equals the new length")
	if out.pos <= int64(len(out.data)) && out.pos >= 0 {
		rt.Assert(rt.BytesEqual(out.data[:out.pos], neu), "old + overlay, truncated at the final position, equals new")
	} else {
		rt.Fail("final position beyond the data")
	}
	rt.Reach("end")
}

// H_bowl: the same property through the overlay bowl's entry writer - the code that owns the seeks on a resume:
// the new content is written in `chunk`-byte writes to the writer the bowl hands out for a file that exists in the
// old build; after the k-th write the writer is saved, the checkpoints go through gob, and a BRAND-NEW bowl and
// writer resume from them (resume 0 = never); Commit; the file must equal the new content. Old and new contents
// are fully symbolic, so the solver picks the equality patterns (incl. new[n+x] == old[m+x] for unrelated n, m).
// Params: nold, nnew, chunk, resume.
func H_bowl() {
	hlib.SetCopyBuf()
	nold, nnew := rt.Param("nold"), rt.Param("nnew")
	chunk, resumeAt := rt.Param("chunk"), rt.Param("resume")
	old := rt.Bytes("old", nold)
	neu := rt.Bytes("new", nnew)
	if rt.HasParam("long") {
		// a long concrete old file (longer than any overlay offset reached) and symbolic new bytes after the first
		// write: the solver can make them equal to ANY stretch of the old file, i.e. to whatever a misplaced reader sees
		old = make([]byte, nold)
		for i := range old {
			old[i] = byte(i*7 + 3)
		}
		for i := 0; i < chunk && i < nnew; i++ {
			neu[i] = byte(200 + i)
		}
	}
	root := rt.TempDir()
	dir, stage := root+"/install", root+"/stage"
	(&hlib.Build{Files: []hlib.File{{Path: "f", Data: old}}}).Write(dir)
	target := &tlc.Container{Size: int64(nold), Files: []*tlc.File{{Path: "f", Mode: 0o644, Size: int64(nold)}}}
	source := &tlc.Container{Size: int64(nnew), Files: []*tlc.File{{Path: "f", Mode: 0o644, Size: int64(nnew)}}}
	mk := func() (bowl.Bowl, bowl.EntryWriter) {
		b, err := bowl.NewOverlayBowl(bowl.OverlayBowlParams{SourceContainer: source, TargetContainer: target, OutputFolder: dir, StageFolder: stage})
		hlib.Must(err, "NewOverlayBowl")
		w, err := b.GetWriter(0)
		hlib.Must(err, "GetWriter")
		return b, w
	}
	b, w := mk()
	_, err := w.Resume(nil)
	hlib.Must(err, "Resume(nil)")
	pos, writes := 0, 0
	for pos < nnew {
		n := hlib.Min(chunk, nnew-pos)
		_, err := w.Write(neu[pos : pos+n])
		rt.Assert(err == nil, "Write returns no error")
		pos += n
		writes++
		if resumeAt > 0 && writes == resumeAt {
			wc, err := w.Save()
			hlib.Must(err, "writer Save")
			bc, err := b.Save()
			hlib.Must(err, "bowl Save")
			wc2, bc2 := &bowl.WriterCheckpoint{}, &bowl.BowlCheckpoint{}
			hlib.Must(rt.CloneViaGob(wc2, wc), "writer checkpoint survives gob")
			hlib.Must(rt.CloneViaGob(bc2, bc), "bowl checkpoint survives gob")
			rt.Assert(wc.Offset == int64(pos), "the writer checkpoint is at the bytes of new content written")
			hlib.Must(w.Close(), "close interrupted writer")
			// a new process
			b, w = mk()
			hlib.Must(b.Resume(bc2), "bowl Resume")
			off, err := w.Resume(wc2)
			hlib.Must(err, "writer Resume")
			rt.Assert(off == int64(pos), "the resumed writer continues where the checkpoint was taken")
			pos = int(off)
		}
	}
	rt.Assert(w.Finalize() == nil, "Finalize returns no error")
	rt.Assert(w.Close() == nil, "Close returns no error")
	rt.Assert(b.Commit() == nil, "Commit returns no error")
	got, rerr := os.ReadFile(dir + "/f")
	rt.Assert(rerr == nil, "the file exists after commit")
	rt.Assert(len(got) == nnew && rt.BytesEqual(got, neu), "after commit the file equals the new content")
	rt.Reach("end")
}
