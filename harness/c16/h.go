// Package c16: validation always terminates and a clean verdict is never caused by interruption.
package c16

import (
	"context"
	"os"

	"github.com/itchio/wharf/pwr"
	"github.com/itchio/wharf/zzverif/hlib"
	"github.com/itchio/wharf/zzverif/rt"
)

func H_witness() {
	a := rt.Byte("a")
	rt.Assert(a != 9, "witness")
	rt.Reach("end")
}

// H_cancel. Params: nf (number of files, each B+1 bytes), damage (bitmask of files whose
// last byte is flipped; bit 8: first file deleted; bit 9: target directory missing; bit 10: target is a regular file; bit 11: two more dirs and two symlinks in the build, all four wounded), cancel (0 none, 1 before the call,
// 2 by a concurrent goroutine at any scheduling point), mode (0 fail-fast, 1 wounds file, 2 printer).
func H_cancel() {
	hlib.SetCopyBuf()
	B := hlib.B()
	nf, damage := rt.Param("nf"), rt.Param("damage")
	b := &hlib.Build{Dirs: []string{"d"}}
	if rt.Param("damage")&(1<<11) != 0 {
		// more entries of the other kinds, all of them wounded below: dir and symlink wounds alone exceed the
		// (scaled) wound channel before the first file is looked at
		b.Dirs = []string{"d", "e", "g"}
		b.Links = []hlib.Link{{Path: "l1", Dest: "f0"}, {Path: "l2", Dest: "f1"}}
	}
	for i := 0; i < nf; i++ {
		size := B + 1
		if rt.HasParam("big") {
			// long enough for a contiguous damaged run to reach the (scaled) MaxWoundSize in the aggregator
			size = 3*B + 1
		}
		data := make([]byte, size)
		for j := range data {
			data[j] = byte(i*16 + j + 1)
		}
		b.Files = append(b.Files, hlib.File{Path: "f" + string(rune('0'+i)), Data: data})
	}
	root := rt.TempDir()
	b.Write(root + "/s")
	sig := hlib.SigOf(root + "/s")
	dir := root + "/t"
	b.Write(dir)
	for i := 0; i < nf; i++ {
		if damage&(1<<i) != 0 {
			d := append([]byte{}, b.Files[i].Data...)
			d[len(d)-1] ^= 0xff
			if rt.HasParam("big") {
				for j := range d {
					d[j] = b.Files[i].Data[j] ^ 0xff
				}
			}
			hlib.Must(os.WriteFile(dir+"/"+b.Files[i].Path, d, 0o644), "damage")
		}
	}
	if damage&(1<<8) != 0 {
		hlib.Must(os.Remove(dir+"/f0"), "delete")
	}
	if damage&(1<<9) != 0 {
		// the whole target directory is gone
		hlib.Must(os.RemoveAll(dir), "remove target")
	}
	if damage&(1<<10) != 0 {
		// the target is a regular file
		hlib.Must(os.RemoveAll(dir), "remove target")
		hlib.Must(os.WriteFile(dir, []byte{1}, 0o644), "file instead of target")
	}
	if damage&(1<<11) != 0 {
		hlib.Must(os.Remove(dir+"/e"), "remove dir")
		hlib.Must(os.Remove(dir+"/g"), "remove dir")
		hlib.Must(os.WriteFile(dir+"/g", []byte{1}, 0o644), "file instead of dir")
		hlib.Must(os.Remove(dir+"/l1"), "remove symlink")
		hlib.Must(os.Remove(dir+"/l2"), "remove symlink")
		hlib.Must(os.Symlink("elsewhere", dir+"/l2"), "retarget symlink")
	}
	valid := damage == 0

	ctx, cancel := context.WithCancel(context.Background())
	switch rt.Param("cancel") {
	case 1:
		cancel()
	case 2:
		// the cancellation instant is a symbolic choice: right before the n-th visible
		// operation (channel / sync / file-system call of any goroutine) of the validation
		rt.AtVisibleOp(1+rt.Choice("cancel-at", rt.Param("instants")), cancel)
	}
	vctx := &pwr.ValidatorContext{Consumer: hlib.Consumer}
	switch rt.Param("mode") {
	case 0:
		vctx.FailFast = true
	case 1:
		vctx.WoundsPath = root + "/w.pww"
	}
	err := vctx.Validate(ctx, dir, sig) // a deadlock in any explored schedule is reported by the engine
	rt.Reach("returned")
	if rt.Param("mode") == 0 && err == nil {
		rt.Assert(valid, "fail-fast validation returns nil only if the directory really matches")
	}
	if rt.Param("cancel") == 0 && rt.Param("mode") == 0 && !valid {
		rt.Assert(err != nil, "without interruption a damaged directory is rejected")
	}
	cancel()
	rt.Reach("end")
}
