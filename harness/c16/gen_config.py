#!/usr/bin/env python3
import json
scale=[{"set":"b2","file":"pwr/constants.go","ident":"BlockSize","value":"2"},
       {"set":"b2","file":"pwr/validator.go","ident":"MaxWoundSize","value":"4"},
       {"set":"b2","file":"pwr/validator.go","func":"Validate","match":"1024","value":"2"}]
Q=["quick","thorough"];T=["thorough"]
H=[{"name":"H_witness","tiers":Q,"expect":"violation","bounds":"vacuity witness"}]
def grid(nfs,damages,cancels,modes): return [{"nf":n,"damage":d,"cancel":c,"mode":m,"instants":220} for n in nfs for d in damages for c in cancels for m in modes if d < (1<<n) or d>=256]
H.append({"name":"H_cancel","tiers":Q,"scale":"b2","preemptions":1,"bounds":"B=2, wound channel capacity scaled 1024->2: 2 files; undamaged / last file damaged / all damaged / first file deleted; no cancellation and cancellation before the call; fail-fast and wounds-file modes; all schedules with at most 1 preemption",
  "param_sets":grid([2],[0,2,3,256],[0,1],[0,1])})
H.append({"name":"H_cancel","tiers":Q,"scale":"b2","preemptions":0,"bounds":"2 files, same damage patterns: cancellation right before each of the first 220 visible operations (channel/sync/file-system calls of any goroutine) under the canonical schedule",
  "param_sets":grid([2],[0,2,3,256],[2],[0,1])})
H.append({"name":"H_cancel","tiers":Q,"scale":"b2","preemptions":0,"bounds":"3 files all damaged (more wounds than the scaled channel holds), every non-preemptive schedule",
  "param_sets":grid([3],[7],[0,1,2],[0,1,2])})
H.append({"name":"H_cancel","tiers":Q,"scale":"b2","preemptions":0,"bounds":"target directory missing / target is a regular file: all three consumers, no cancellation, cancellation before the call and at any of the first 220 visible operations",
  "param_sets":grid([2],[512,1024],[0,1,2],[0,1,2])})
H.append({"name":"H_cancel","tiers":Q,"scale":"b2","preemptions":0,"bounds":"four dir/symlink wounds (more than the scaled channel holds) before the first file, files intact or damaged: all consumers, all cancel modes",
  "param_sets":grid([2],[2048,2048+3],[0,1,2],[0,1,2])})
H.append({"name":"H_cancel","tiers":Q,"scale":"b2","preemptions":0,"bounds":"files of 3B+1 bytes damaged in every block: the contiguous run exceeds the scaled MaxWoundSize (2B), so the aggregator's size-limit path runs; all consumers, all cancel modes",
  "param_sets":[dict(p,big=1) for p in grid([2],[1,3],[0,1,2],[0,1,2])]})
H.append({"name":"H_cancel","tiers":T,"scale":"b2","preemptions":1,"bounds":"2-3 files, all damage patterns, no cancellation / cancellation before the call, all consumers; at most 1 preemption","max_seconds":900,
  "param_sets":grid([2,3],[0,1,2,3,4,7,256,512,2048],[0,1],[0,1,2])})
H.append({"name":"H_cancel","tiers":T,"scale":"b2","preemptions":0,"bounds":"cancellation right before each of the first 220 visible operations, 2-3 files, all damage patterns, all consumers, canonical schedule","max_seconds":900,
  "param_sets":grid([2,3],[0,1,2,3,4,7,256,2048],[2],[0,1,2])})
json.dump({"property":"C16","package":"c16","scale":scale,"harnesses":H,
 "stubs":["os -> memfs (every file-system call is a scheduling point)","context -> model with real cancellation semantics","cooperative scheduler: goroutines switch only at channel/sync/context/file-system operations (sound for data-race-free code), preemption-bounded"],
 "outside":["schedules needing more preemptions than the bound","custom WoundsConsumer implementations (not injectable through the public API)","healing consumer (C06)","real 1024-slot channel (declared capacity scaled to 2)"]},open("config.json","w"),indent=1)
for h in H: print(h["name"],h["tiers"],h.get("scale"),len(h.get("param_sets",[1])))
