package c13

import (
	"bytes"
	"io"

	_ "github.com/itchio/wharf/compressors/gzip"
	_ "github.com/itchio/wharf/decompressors/gzip"

	"github.com/itchio/savior/seeksource"
	"github.com/itchio/wharf/pwr"
	"github.com/itchio/wharf/wire"
	"github.com/itchio/wharf/zzverif/hlib"
	"github.com/itchio/wharf/zzverif/rt"
)

// H_gzip: the REAL gzip adapters (compressors/gzip, decompressors/gzip, compress/gzip, savior's resumable
// gzip source), interpreted. The message contents are concrete; the quality is a symbolic int32, so "for every quality"
// is decided by the solver on the branches of the real adapter and of compress/gzip / compress/flate.
// Params: n (payload length of the middle message).
func H_gzip() {
	q := rt.Int32("quality") // any int32: the solver decides which values the adapter and compress/gzip accept
	comp := &pwr.CompressionSettings{Algorithm: pwr.CompressionAlgorithm_GZIP, Quality: q}
	payload := make([]byte, rt.Param("n"))
	x := uint32(4711)
	for i := range payload {
		payload[i] = byte(i * 7 % 11)
		if len(payload) >= 1000 {
			// incompressible: several deflate blocks, so the resumable source has block boundaries to checkpoint at
			x = x*1103515245 + 12345
			payload[i] = byte(x >> 16)
		}
	}
	msgs := []*pwr.SyncOp{{Type: pwr.SyncOp_DATA, FileIndex: 1, Data: []byte{1, 2, 3}}, {}, {Type: pwr.SyncOp_DATA, FileIndex: 2, Data: payload}, {Type: pwr.SyncOp_DATA, FileIndex: 3, Data: []byte{9, 8, 7, 6, 5}}, {Type: pwr.SyncOp_HEY_YOU_DID_IT}}
	var buf bytes.Buffer
	raw := wire.NewWriteContext(&buf)
	hlib.Must(raw.WriteMagic(pwr.PatchMagic), "magic")
	wc, err := pwr.CompressWire(raw, comp)
	rt.Assert(rt.Implies(q >= -2 && q <= 9, err == nil), "every quality gzip defines (-2..9) is accepted")
	if err != nil {
		rt.Reach("end") // rejected quality: nothing written
		return
	}
	for _, m := range msgs {
		hlib.Must(wc.WriteMessage(m), "write")
	}
	hlib.Must(wc.Close(), "close")
	src := seeksource.FromBytes(buf.Bytes())
	_, err = src.Resume(nil)
	hlib.Must(err, "resume")
	rc := wire.NewReadContext(src)
	rt.Assert(rc.ExpectMagic(pwr.PatchMagic) == nil, "magic read back")
	rc, err = pwr.DecompressWire(rc, comp)
	rt.Assert(err == nil, "DecompressWire accepts what CompressWire wrote, for every gzip quality")
	if err != nil {
		return
	}
	var hold pwr.SyncOp
	for i, m := range msgs {
		if rt.HasParam("save") && i == rt.Param("save") {
			rc.WantSave()
		}
		if c := rc.PopCheckpoint(); c != nil && (i < len(msgs)-1 || rt.HasParam("last")) {
			// a checkpoint emitted by the real resumable gzip source: through gob into a brand-new reader
			// (not after the last message: savior.DiscardByRead's EOF handling there is a known dependency issue, DESIGN 8 #17)
			c2 := &wire.MessageReaderCheckpoint{}
			rt.Assert(rt.CloneViaGob(c2, c) == nil, "gzip checkpoint survives gob")
			src2 := seeksource.FromBytes(buf.Bytes())
			_, err := src2.Resume(nil)
			hlib.Must(err, "resume 2")
			rc2 := wire.NewReadContext(src2)
			rt.Assert(rc2.ExpectMagic(pwr.PatchMagic) == nil, "magic (resumed)")
			rc2, err = pwr.DecompressWire(rc2, comp)
			hlib.Must(err, "DecompressWire (resumed)")
			rt.Assert(rc2.Resume(c2) == nil, "resume from the gzip checkpoint succeeds")
			var h2 pwr.SyncOp
			for j := i; j < len(msgs); j++ {
				rt.Assert(rc2.ReadMessage(&h2) == nil, "resumed gzip reader reads the next unread message")
				rt.Assert(h2.Type == msgs[j].Type && h2.FileIndex == msgs[j].FileIndex && bytes.Equal(h2.Data, msgs[j].Data), "resumed gzip reader yields exactly the unread suffix")
			}
			rt.Reach("gzip-checkpoint-resumed")
		}
		err := rc.ReadMessage(&hold)
		rt.Assert(err == nil, "message read back without error (gzip)")
		if err != nil {
			return
		}
		rt.Assert(hold.Type == m.Type && hold.FileIndex == m.FileIndex && bytes.Equal(hold.Data, m.Data), "message read back unchanged (gzip)")
	}
	err = rc.ReadMessage(&hold)
	rt.Assert(hlib.Cause(err) == io.EOF, "end of stream after the last message (gzip)")
	rt.Reach("end")
}
