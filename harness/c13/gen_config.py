#!/usr/bin/env python3
import json, itertools
scale=[{"set":"p4","file":"wire/read_context.go","func":"NewReadContext","match":"32*1024","value":"4"},
       {"set":"p16","file":"wire/read_context.go","func":"NewReadContext","match":"32*1024","value":"16"}]
Q=["quick","thorough"];T=["thorough"]
def sets(lens_list, saves, lags, shorts):
    out=[]
    for ls in lens_list:
        for s in saves:
            if s >= (1<<len(ls)): continue
            for lag in lags:
                for sh in shorts:
                    d={"save":s,"lag":lag,"short":sh}
                    for i in range(4): d["l%d"%i]= ls[i] if i<len(ls) else -1
                    out.append(d)
    return out
H=[{"name":"H_witness","tiers":Q,"expect":"violation","bounds":"vacuity witness"}]
H.append({"name":"H_frames","tiers":Q,"scale":"p16","bounds":"reader buffer scaled to 16 bytes: 1-3 messages with payloads 0..12 (message lengths below, at and above the buffer and its power-of-two growth steps), every subset of save points, plain seeksource",
  "param_sets":sets([(0,),(3,),(5,),(12,),(0,5),(4,0),(5,6),(12,3),(2,5,0),(5,4,12)],range(0,8),[0],[0])})
H.append({"name":"H_frames","tiers":Q,"scale":"p4","bounds":"buffer 4: 2-3 messages, lagging source (checkpoint delayed by 0..3 reads, i.e. possibly in the middle of a later message)",
  "param_sets":sets([(0,3),(3,2),(2,0,3)],[1,2,3,5],[3],[0])})
H.append({"name":"H_frames","tiers":Q,"scale":"p4","bounds":"all-default messages (zero-length encoding) in every position of 2-3 message streams, read into a reused struct; save subsets; plain and lagging source",
  "param_sets":[dict(d,empty=e) for d in sets([(3,2),(2,0,3)],[0,3,5],[0,3],[0]) for e in (1,2,3,4,6) if e < (1<<sum(1 for k in ("l0","l1","l2","l3") if d[k]>=0))]})
H.append({"name":"H_frames","tiers":Q,"scale":"p4","bounds":"short reads: every read 1 byte / every read half of what was asked; and every 1-byte/half/all slicing of the first 3 reads of each reader; 1-3 messages, save subsets, plain and lagging source",
  "param_sets":sets([(0,),(5,),(3,2),(2,0,3)],[0,1,3,5],[0,2],[2,3])+[dict(d,shortk=3) for d in sets([(1,),(3,2)],[0,1,3],[0],[1])]})
H.append({"name":"H_frames","tiers":Q,"scale":"p4","bounds":"CompressWire / DecompressWire with the two model codecs (plain seek source): 1-3 messages incl. all-default ones, every save subset; the popped checkpoints nest the decompressing source's checkpoint and go through gob",
  "param_sets":[dict(d,comp=c) for d in sets([(0,),(5,),(3,2),(2,0,3)],range(0,8),[0],[0]) for c in (1,2)]+[dict(d,comp=1,empty=e) for d in sets([(3,2)],[0,1,3],[0],[0]) for e in (1,2)]})
H.append({"name":"H_gzip","tiers":Q,"max_steps":3000000000,"bounds":"the REAL gzip adapter packages and codecs interpreted (compress/gzip, savior gzipsource): concrete messages (3, 0, n and 0 payload bytes), quality a symbolic int32 (the solver decides every branch on it: accepted range, level tables); n in {0, 40, 140000 (incompressible: several deflate blocks)}; a save requested before message 0, 1 or 2 and every popped checkpoint resumed in a brand-new reader",
  "param_sets":[{"n":0},{"n":40},{"n":40,"save":0},{"n":140000,"save":1},{"n":140000,"save":2}]})
H.append({"name":"H_frames","tiers":T,"scale":"p4","bounds":"buffer 4: up to 4 messages 0..9 bytes, every save subset, lag 0..4 reads (full reads); 1-byte and half-size reads throughout; every slicing of the first 4 reads of each reader for streams of 1-2 messages up to 4 bytes","max_seconds":1200,
  "param_sets":sets([(0,),(1,),(4,),(9,),(0,0),(3,4),(9,1),(1,0,5),(4,4,4),(0,3,0,2),(5,1,9,0)],range(0,16),[0,4],[0])+sets([(0,),(1,),(4,),(9,),(0,0),(3,4),(1,0,5),(5,1,9,0)],range(0,16),[0,2],[2,3])+[dict(d,shortk=4) for d in sets([(0,),(4,),(0,0),(2,1)],range(0,4),[0,2],[1]) if not (d['save']==3 and d['l1']>=0)]})
H.append({"name":"H_frames","tiers":T,"bounds":"real 32 KiB buffer: payloads 32 KiB-1/32 KiB/32 KiB+1 bytes (message lengths straddling the reusable buffer and its first growth step), save before each",
  "max_seconds":1800,"max_steps":2000000000,"param_sets":sets([(32757,3),(32758,0),(32759,1),(32768,2),(65537,1)],[0,1,3],[0],[0])})
json.dump({"property":"C13","package":"c13","scale":scale,"harnesses":H,
 "stubs":["protobuf -> tag-faithful codec model (real uvarint framing, real offsets)","encoding/gob -> deep copy of exported fields","decompressor -> lagging-source model: only its checkpoint contract (offset <= reader offset, resume exactly there)"],
 "outside":["real gzip/brotli codecs and qualities: not encodable, represented by the lagging-source contract and by model codecs plugged into CompressWire/DecompressWire","messages > 64 KiB+1"]},open("config.json","w"),indent=1)
for h in H: print(h["name"],h["tiers"],h.get("scale"),len(h.get("param_sets",[1])))
