// Package c13: messages survive framing; reader checkpoints resume exactly.
package c13

import (
	"bytes"
	"io"

	"github.com/itchio/savior"
	"github.com/itchio/savior/seeksource"
	"github.com/itchio/wharf/pwr"
	"github.com/itchio/wharf/wire"
	"github.com/itchio/wharf/zzverif/hlib"
	"github.com/itchio/wharf/zzverif/rt"
)

func H_witness() {
	a := rt.Byte("a")
	rt.Assert(a != 9, "witness")
	rt.Reach("end")
}

// lagSource models a decompressing source by its checkpoint contract only: reads
// may come back short, and a requested checkpoint is emitted at some later read
// (so its offset may lie anywhere at or before the offset at which it is popped).
type lagSource struct {
	inner savior.SeekSource
	ssc   savior.SourceSaveConsumer
	want  bool
	delay int
	lag   int
	short int // 0 full reads; 1 every slicing (1 byte / half / all) of the first `budget` reads; 2 always 1 byte; 3 always half
	budget int
}

func (l *lagSource) Resume(c *savior.SourceCheckpoint) (int64, error) { return l.inner.Resume(c) }
func (l *lagSource) SetSourceSaveConsumer(s savior.SourceSaveConsumer) { l.ssc = s }
func (l *lagSource) WantSave() {
	l.want = true
	l.delay = 0
	if l.lag > 0 {
		l.delay = rt.Choice("checkpoint-lag", l.lag+1)
	}
}
func (l *lagSource) Progress() float64               { return 0 }
func (l *lagSource) Features() savior.SourceFeatures { return l.inner.Features() }
// Read: when the pending checkpoint is due, the source (like the real gzip/brotli
// sources at a block boundary) returns early with k bytes - possibly none - and a
// nil error, having emitted the checkpoint at the offset it reached.
func (l *lagSource) Read(p []byte) (int, error) {
	if l.want {
		if l.delay > 0 {
			l.delay--
		} else {
			l.want = false
			n := 0
			var err error
			if len(p) > 0 && rt.Choice("bytes-before-checkpoint", 2) == 1 {
				n, err = l.inner.Read(p[:1])
			}
			if l.ssc != nil {
				l.ssc.Save(&savior.SourceCheckpoint{Offset: l.inner.Tell()})
			}
			return n, err
		}
	}
	if len(p) > 1 {
		switch l.short {
		case 1:
			if l.budget > 0 {
				l.budget--
				switch rt.Choice("short-read", 3) {
				case 0:
					p = p[:1]
				case 1:
					p = p[:(len(p)+1)/2]
				}
			}
		case 2:
			p = p[:1]
		case 3:
			p = p[:(len(p)+1)/2]
		}
	}
	return l.inner.Read(p)
}

// ReadByte retries after an empty read, as the real sources do.
func (l *lagSource) ReadByte() (byte, error) {
	var b [1]byte
	for i := 0; i < 4; i++ {
		n, err := l.Read(b[:])
		if n == 1 {
			return b[0], nil
		}
		if err != nil {
			return 0, err
		}
	}
	return 0, io.ErrNoProgress
}

func newSource(data []byte, lag int, short int) savior.Source {
	s := seeksource.FromBytes(data)
	if lag == 0 && short == 0 {
		return s
	}
	budget := 6
	if rt.HasParam("shortk") {
		budget = rt.Param("shortk")
	}
	return &lagSource{inner: s, lag: lag, short: short, budget: budget}
}

type msg struct {
	idx   int64
	data  []byte
	empty bool // written with every field at its default: encodes to a zero-length message
}

// readOne reads the next message into *into - one struct reused for a whole stream, as wharf's
// own read loops do - and returns a copy.
func readOne(rc *wire.ReadContext, into *pwr.SyncOp) (*pwr.SyncOp, error) {
	err := rc.ReadMessage(into)
	return &pwr.SyncOp{Type: into.Type, FileIndex: into.FileIndex, BlockIndex: into.BlockIndex, BlockSpan: into.BlockSpan, Data: into.Data}, err
}

func sameMsg(op *pwr.SyncOp, m msg) bool {
	if m.empty {
		return op.Type == 0 && op.FileIndex == 0 && op.BlockIndex == 0 && op.BlockSpan == 0 && len(op.Data) == 0
	}
	return op.Type == pwr.SyncOp_DATA && op.FileIndex == m.idx && len(op.Data) == len(m.data) && rt.BytesEqual(op.Data, m.data)
}

// H_frames. Params: l0..l3 payload lengths (-1 = absent), save = bitmask of message
// boundaries before which a save is requested, lag = max reads by which the source
// delays its checkpoint, short = 1 for short reads.
func H_frames() {
	var msgs []msg
	for i, name := range []string{"l0", "l1", "l2", "l3"} {
		if !rt.HasParam(name) || rt.Param(name) < 0 {
			break
		}
		m := msg{idx: int64(i + 1), data: rt.Bytes("payload"+string(rune('0'+i)), rt.Param(name))}
		if rt.HasParam("empty") && rt.Param("empty")&(1<<i) != 0 {
			m = msg{empty: true}
		}
		msgs = append(msgs, m)
	}
	save, lag, short := rt.Param("save"), rt.Param("lag"), rt.Param("short")

	comp := hlib.CodecParam()
	var buf bytes.Buffer
	wc := wire.NewWriteContext(&buf)
	hlib.Must(wc.WriteMagic(pwr.PatchMagic), "magic")
	rawWc := wc
	if comp.Algorithm != pwr.CompressionAlgorithm_NONE {
		// the messages go through CompressWire / DecompressWire (model codec): the reader's checkpoints then carry the
		// decompressing source's own checkpoint
		var err error
		wc, err = pwr.CompressWire(rawWc, comp)
		hlib.Must(err, "CompressWire")
	}
	for _, m := range msgs {
		if m.empty {
			hlib.Must(wc.WriteMessage(&pwr.SyncOp{}), "write all-default message")
			continue
		}
		hlib.Must(wc.WriteMessage(&pwr.SyncOp{Type: pwr.SyncOp_DATA, FileIndex: m.idx, Data: m.data}), "write message")
	}
	if wc != rawWc {
		hlib.Must(wc.Close(), "close compressed wire")
	}
	stream := buf.Bytes()

	open := func(lag, short int) *wire.ReadContext {
		src := newSource(stream, lag, short)
		_, err := src.Resume(nil)
		hlib.Must(err, "resume")
		rc := wire.NewReadContext(src)
		rt.Assert(rc.ExpectMagic(pwr.PatchMagic) == nil, "magic read back")
		if comp.Algorithm != pwr.CompressionAlgorithm_NONE {
			rc, err = pwr.DecompressWire(rc, comp)
			hlib.Must(err, "DecompressWire")
		}
		return rc
	}
	rc := open(lag, short)
	var hold, hold2 pwr.SyncOp
	for i, m := range msgs {
		if save&(1<<i) != 0 {
			rc.WantSave()
		}
		op, err := readOne(rc, &hold)
		rt.Assert(err == nil, "message read back without error")
		if err != nil {
			return
		}
		rt.Assert(sameMsg(op, m), "message read back unchanged")
		if c := rc.PopCheckpoint(); c != nil {
			// serialize, then resume a brand-new reader over the same bytes
			c2 := &wire.MessageReaderCheckpoint{}
			rt.Assert(rt.CloneViaGob(c2, c) == nil, "checkpoint survives gob")
			var rc2 *wire.ReadContext
			if comp.Algorithm != pwr.CompressionAlgorithm_NONE {
				rc2 = open(0, short) // the same layering as a patcher that is about to resume
			} else {
				rc2 = wire.NewReadContext(newSource(stream, 0, short))
			}
			rt.Assert(rc2.Resume(c2) == nil, "resume from checkpoint succeeds")
			for j := i + 1; j < len(msgs); j++ {
				op2, err := readOne(rc2, &hold2)
				rt.Assert(err == nil, "resumed reader reads the next unread message")
				if err != nil {
					return
				}
				rt.Assert(sameMsg(op2, msgs[j]), "resumed reader yields exactly the unread suffix")
			}
			_, err := readOne(rc2, &hold2)
			rt.Assert(hlib.Cause(err) == io.EOF, "resumed reader ends with EOF")
		}
	}
	_, err := readOne(rc, &hold)
	rt.Assert(hlib.Cause(err) == io.EOF, "end of stream after the last message")
	rt.Reach("end")
}
