#!/usr/bin/env python3
import json
def sc(b,mdo): return [{"set":"b%d"%b,"file":"pwr/constants.go","ident":"BlockSize","value":str(b)},
  {"set":"b%d"%b,"file":"wsync/algo.go","ident":"MaxDataOp","value":str(mdo)},
  {"set":"b%d"%b,"file":"wsync/algo.go","ident":"minBufferSize","func":"ApplySingleFull","value":str(max(1,b//2))},
  {"set":"b%d"%b,"file":"pwr/bowl/bowl_fresh.go","ident":"freshBufferSize","value":str(max(1,b//2))}]
scale=sc(2,5)+sc(4,8)
# set "w": B=4 with a bsdiff scan block of 64 (real matches) and the production ratios kept: LRU chunk = patch buffer = B/2
# (32 KiB : 64 KiB), so a chunk never straddles a block; 2 cache entries
scale+=[dict(r,set="w") for r in sc(4,8)]+[
  {"set":"w","file":"bsdiff/diff.go","func":"Do","match":"128 * 1024","value":"64"},
  {"set":"w","file":"bsdiff/patch.go","func":"NewIndividualPatchContext","ident":"minBufferSize","value":"2"},
  {"set":"w","file":"bsdiff/patch.go","func":"NewIndividualPatchContext","ident":"lruChunkSize","value":"2"},
  {"set":"w","file":"bsdiff/patch.go","func":"NewIndividualPatchContext","ident":"lruNumEntries","value":"2"}]
Q=["quick","thorough"];T=["thorough"]
def grid(B,nsl,rels):
    out=[]
    for ns in nsl:
        for rel in rels:
            for na in [-1]+list(range(0,ns+B+2)):
                out.append({"ns":ns,"na":na,"rel":rel})
    return out
H=[{"name":"H_witness","tiers":Q,"expect":"violation","bounds":"vacuity witness"}]
H.append({"name":"H_safe","tiers":Q,"scale":"b2","bounds":"B=2: pristine old 0..2B+1, damaged old any length 0..old+B+1 or deleted, independent fully symbolic contents; new = old / old+1 byte / first block moved to the end / second block onwards",
  "param_sets":grid(2,[0,1,2,3,4,5],[0,1,2,3])})
H.append({"name":"H_safe","tiers":Q,"scale":"b2","bounds":"B=2: the same with three other files before f in the old container (empty, unchanged, dropped by new): f's hashes start at index 4 of the signature; also f becoming a second whole-file copy of the kept / of the dropped neighbour; pristine old 3..4",
  "param_sets":[dict(p,pre=1) for p in grid(2,[3,4],[0,1,2,3,4,5])]})
H.append({"name":"H_safe_bsdiff","tiers":Q,"scale":"w","bounds":"optimized patch (bsdiff series read through the LRU file on top of the safekeeper; B=4, LRU chunk = patch buffer = 2 as 32 KiB is to 64 KiB, 2 cache entries): pristine old 13..14 concrete bytes, two bytes inserted at 1 / 5 (+ optionally one edited byte), damaged old fully symbolic of the same length or one byte shorter",
  "param_sets":[{"ns":ns,"na":na,"ins":i,"edit":e} for ns in (13,14,17) for na in (ns,ns-1) for i in (1,5) for e in (-1,9)]})
H.append({"name":"H_safe_bsdiff","tiers":Q,"scale":"w","bounds":"the same with the two halves of a 24..26-byte old file swapped in new (the series reads the old file out of order through one reader seeking backwards), optionally one edited byte; damaged old fully symbolic, same length",
  "param_sets":[{"ns":ns,"na":ns,"ins":0,"edit":e,"swap":1} for ns in (24,26) for e in (-1,3,15)]})
H.append({"name":"H_safe_real","tiers":Q,"max_steps":2000000000,"bounds":"REGIME R (no constant scaled: 64 KiB blocks, 32 KiB copy buffers): old file of 3 blocks + 100-byte tail (concrete), new = block 0 rewritten, so one BLOCK_RANGE run over blocks 1..3; one symbolic damaged byte in block 1, 2 or 3 of the run",
  "param_sets":[{"nb":3,"blk":b} for b in (1,2,3)]})
H.append({"name":"H_safe","tiers":T,"scale":"b4","bounds":"B=4: pristine old in {0,3,4,5,8}, damaged 0..old+B+1","max_seconds":900,"param_sets":grid(4,[0,3,4,5,8],[0,1,2,3])})
H.append({"name":"H_safe","tiers":T,"scale":"b2","bounds":"B=2: pristine old 6..7","max_seconds":1500,"param_sets":grid(2,[6,7],[0,1,2,3])})
json.dump({"property":"C09","package":"c09","scale":scale,"harnesses":H,
 "stubs":["os -> in-memory file system model (copy buffer B/2, so reads never straddle a block, as 32 KiB is to 64 KiB)","crypto/md5 -> injective model: strong-hash collisions excluded","protobuf/wire -> codec model"],
 "outside":["bsdiff series through the safekeeper beyond the H_safe_bsdiff grid","block size 64 KiB (declared value scaled)"]},open("config.json","w"),indent=1)
for h in H: print(h["name"],h["tiers"],h.get("scale"),len(h.get("param_sets",[1])))
