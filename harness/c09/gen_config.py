#!/usr/bin/env python3
import json
def sc(b,mdo): return [{"set":"b%d"%b,"file":"pwr/constants.go","ident":"BlockSize","value":str(b)},
  {"set":"b%d"%b,"file":"wsync/algo.go","ident":"MaxDataOp","value":str(mdo)},
  {"set":"b%d"%b,"file":"wsync/algo.go","ident":"minBufferSize","func":"ApplySingleFull","value":str(max(1,b//2))},
  {"set":"b%d"%b,"file":"pwr/bowl/bowl_fresh.go","ident":"freshBufferSize","value":str(max(1,b//2))}]
scale=sc(2,5)+sc(4,8)
Q=["quick","thorough"];T=["thorough"]
def grid(B,nsl,rels):
    out=[]
    for ns in nsl:
        for rel in rels:
            for na in [-1]+list(range(0,ns+B+2)):
                out.append({"ns":ns,"na":na,"rel":rel})
    return out
H=[{"name":"H_witness","tiers":Q,"expect":"violation","bounds":"vacuity witness"}]
H.append({"name":"H_safe","tiers":Q,"scale":"b2","bounds":"B=2: pristine old 0..2B+1, damaged old any length 0..old+B+1 or deleted, independent fully symbolic contents; new = old / old+1 byte / first block moved to the end / second block onwards",
  "param_sets":grid(2,[0,1,2,3,4,5],[0,1,2,3])})
H.append({"name":"H_safe","tiers":T,"scale":"b4","bounds":"B=4: pristine old in {0,3,4,5,8,9}, damaged 0..old+B+1","max_seconds":1500,"param_sets":grid(4,[0,3,4,5,8,9],[0,1,2,3])})
H.append({"name":"H_safe","tiers":T,"scale":"b2","bounds":"B=2: pristine old 6..7","max_seconds":1500,"param_sets":grid(2,[6,7],[0,1,2,3])})
json.dump({"property":"C09","package":"c09","scale":scale,"harnesses":H,
 "stubs":["os -> in-memory file system model (copy buffer B/2, so reads never straddle a block, as 32 KiB is to 64 KiB)","crypto/md5 -> injective model: strong-hash collisions excluded","protobuf/wire -> codec model"],
 "outside":["bsdiff series through the safekeeper (lrufile consumer) - covered only via C07/C12 harnesses without damage","block size 64 KiB (declared value scaled)","optimized patches"]},open("config.json","w"),indent=1)
for h in H: print(h["name"],h["tiers"],h.get("scale"),len(h.get("param_sets",[1])))
