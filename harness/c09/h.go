// Package c09: applying through the safekeeper never yields a silently wrong result.
package c09

import (
	"os"

	"github.com/itchio/lake/pools/fspool"
	"github.com/itchio/savior"
	"github.com/itchio/savior/seeksource"
	"github.com/itchio/wharf/pwr"
	"github.com/itchio/wharf/pwr/bowl"
	"github.com/itchio/wharf/pwr/patcher"
	"github.com/itchio/wharf/zzverif/hlib"
	"github.com/itchio/wharf/zzverif/rt"
)

func H_witness() {
	a := rt.Byte("a")
	rt.Assert(a != 9, "witness")
	rt.Reach("end")
}

func applySafe(patch, sig []byte, oldDir, outDir string) error {
	p, err := patcher.New(seeksource.FromBytes(patch), hlib.Consumer)
	if err != nil {
		return err
	}
	inner := fspool.New(p.GetTargetContainer(), oldDir)
	pool, err := pwr.NewSafeKeeper(pwr.SafeKeeperParams{Inner: inner, Open: func() (savior.SeekSource, error) {
		s := seeksource.FromBytes(sig)
		if _, err := s.Resume(nil); err != nil {
			return nil, err
		}
		return s, nil
	}})
	if err != nil {
		return err
	}
	b, err := bowl.NewFreshBowl(bowl.FreshBowlParams{SourceContainer: p.GetSourceContainer(), TargetContainer: p.GetTargetContainer(), TargetPool: pool, OutputFolder: outDir})
	if err != nil {
		return err
	}
	if err := p.Resume(nil, pool, b); err != nil {
		return err
	}
	return b.Commit()
}

// H_safe. Params: ns = pristine old length, na = length of the damaged old file
// (-1 = deleted), rel = how new relates to old: 0 identical (whole-file copy),
// 1 old + one fresh byte (block ranges + data), 2 first block moved to the end
// (block ranges out of order), 3 second block onwards only.
func H_safe() {
	hlib.SetCopyBuf()
	B := hlib.B()
	ns, na, rel := rt.Param("ns"), rt.Param("na"), rt.Param("rel")
	O := rt.Bytes("old", ns)
	var N []byte
	switch rel {
	case 0:
		N = append([]byte{}, O...)
	case 1:
		N = append(append([]byte{}, O...), rt.Byte("fresh"))
	case 2:
		if ns <= B {
			rt.Reach("end")
			return
		}
		N = append(append([]byte{}, O[B:]...), O[:B]...)
	case 3:
		if ns <= B {
			rt.Reach("end")
			return
		}
		N = append([]byte{}, O[B:]...)
	case 4, 5:
		// (with pre) f becomes a second whole-file copy of the kept neighbour / of the dropped one: set below
		N = nil
	}
	root := rt.TempDir()
	oldB := &hlib.Build{Files: []hlib.File{{Path: "f", Data: O}}}
	newB := &hlib.Build{Files: []hlib.File{{Path: "f", Data: N}}}
	var pre []hlib.File
	if rt.HasParam("pre") {
		// other files before f in the container (an empty one: it owns a zero-length hash; an unchanged one; one that
		// new drops), so that f's hashes do not start at index 0 of the signature
		// (concrete, distinct bytes: the quantifier of these instances is f's pristine and damaged content)
		kept := make([]byte, B+1)
		for i := range kept {
			kept[i] = byte(201 + i)
		}
		pre = []hlib.File{{Path: "a-empty", Data: []byte{}}, {Path: "b-kept", Data: kept}, {Path: "c-dropped", Data: []byte{250}}}
		if rel == 4 {
			N = append([]byte{}, pre[1].Data...)
			newB.Files[0].Data = N
		} else if rel == 5 {
			N = append([]byte{}, pre[2].Data...)
			newB.Files[0].Data = N
		}
		oldB.Files = append(append([]hlib.File{}, pre...), oldB.Files...)
		newB.Files = append([]hlib.File{{Path: "a-empty", Data: []byte{}}, {Path: "b-kept", Data: append([]byte{}, pre[1].Data...)}}, newB.Files...)
	}
	oldB.Write(root + "/old")
	newB.Write(root + "/new")
	d := hlib.Diff(root+"/old", root+"/new")
	sig := hlib.SigBytes(root + "/old")

	// the damaged old build
	dmg := root + "/damaged"
	hlib.Must(os.MkdirAll(dmg, 0o755), "mkdir")
	for _, f := range pre {
		hlib.Must(os.WriteFile(dmg+"/"+f.Path, f.Data, 0o644), "write undamaged neighbour")
	}
	var A []byte
	if na >= 0 {
		A = rt.Bytes("damaged", na)
		hlib.Must(os.WriteFile(dmg+"/f", A, 0o644), "write damaged")
	}
	err := applySafe(d.Patch, sig, dmg, root+"/out")
	undamaged := na == ns && rt.BytesEqual(A, O)
	if undamaged {
		rt.Assert(err == nil, "an undamaged old build is never rejected")
	}
	if err == nil {
		hlib.AssertSame(hlib.Snapshot(root+"/out"), newB.Entries(), "success implies output == new")
	}
	rt.Reach("end")
}

// H_safe_bsdiff: the same guarantee for an optimized patch, whose bsdiff series reads the old
// file through the LRU-cached reader on top of the safekeeper. Pristine old and new contents
// are concrete (suffix sorting), the damaged old file is fully symbolic and independent.
// Params: ns (pristine old length), na (damaged length), ins (where two bytes are inserted), edit
// (index of one changed byte, -1 none).
func H_safe_bsdiff() {
	hlib.SetCopyBuf()
	ns, na := rt.Param("ns"), rt.Param("na")
	O := make([]byte, ns)
	for i := range O {
		O[i] = byte(i*7 + 3)
	}
	ins := rt.Param("ins")
	N := append(append(append([]byte{}, O[:ins]...), 200, 201), O[ins:]...)
	if rt.HasParam("swap") {
		// the two halves swapped: the bsdiff series reads the old file OUT OF ORDER (second half first), through one
		// reader that seeks backwards
		h := ns / 2
		N = append(append([]byte{}, O[h:]...), O[:h]...)
	}
	if e := rt.Param("edit"); e >= 0 {
		N[e] ^= 0x55
	}
	root := rt.TempDir()
	oldB := &hlib.Build{Files: []hlib.File{{Path: "f", Data: O}}}
	newB := &hlib.Build{Files: []hlib.File{{Path: "f", Data: N}}}
	oldB.Write(root + "/old")
	newB.Write(root + "/new")
	d := hlib.Diff(root+"/old", root+"/new")
	opt, _, err := hlib.Optimize(d.Patch, root+"/old", root+"/new", hlib.RediffOpts{ForceMapAll: true})
	hlib.Must(err, "optimize")
	sig := hlib.SigBytes(root + "/old")

	dmg := root + "/damaged"
	hlib.Must(os.MkdirAll(dmg, 0o755), "mkdir")
	A := rt.Bytes("damaged", na)
	hlib.Must(os.WriteFile(dmg+"/f", A, 0o644), "write damaged")
	aerr := applySafe(opt, sig, dmg, root+"/out")
	undamaged := na == ns && rt.BytesEqual(A, O)
	if undamaged {
		rt.Assert(aerr == nil, "an undamaged old build is never rejected (optimized patch)")
	}
	if aerr == nil {
		hlib.AssertSame(hlib.Snapshot(root+"/out"), newB.Entries(), "success implies output == new (optimized patch)")
	}
	rt.Reach("end")
}

// H_safe_real: regime R - no constant is scaled (64 KiB blocks, 32 KiB copy buffers). The old file has
// nb full blocks and a 100-byte tail, all concrete; the new file replaces block 0 by fresh bytes and keeps
// the rest, so the patch copies ONE run of consecutive old blocks; the damaged old file differs from the
// pristine one in a single symbolic byte inside block `blk` of that run. Params: nb, blk.
func H_safe_real() {
	hlib.SetCopyBuf()
	B := hlib.B()
	nb, blk := rt.Param("nb"), rt.Param("blk")
	O := make([]byte, nb*B+100)
	x := uint32(12345)
	for i := range O {
		x = x*1103515245 + 12345
		O[i] = byte(x >> 16)
	}
	N := append([]byte{}, O...)
	for i := 0; i < B; i++ {
		N[i] ^= 0x5a
	}
	root := rt.TempDir()
	oldB := &hlib.Build{Files: []hlib.File{{Path: "f", Data: O}}}
	newB := &hlib.Build{Files: []hlib.File{{Path: "f", Data: N}}}
	oldB.Write(root + "/old")
	newB.Write(root + "/new")
	d := hlib.Diff(root+"/old", root+"/new")
	sig := hlib.SigBytes(root + "/old")

	A := append([]byte{}, O...)
	pos := blk*B + 7
	if pos >= len(A) {
		pos = len(A) - 1
	}
	dmgByte := rt.Byte("damaged-byte")
	A[pos] = dmgByte
	dmg := root + "/damaged"
	hlib.Must(os.MkdirAll(dmg, 0o755), "mkdir")
	hlib.Must(os.WriteFile(dmg+"/f", A, 0o644), "write damaged")
	err := applySafe(d.Patch, sig, dmg, root+"/out")
	if dmgByte == O[pos] {
		rt.Assert(err == nil, "an undamaged old build is never rejected (real constants)")
	}
	if err == nil {
		hlib.AssertSame(hlib.Snapshot(root+"/out"), newB.Entries(), "success implies output == new (real constants)")
	}
	rt.Reach("end")
}
