package modelzip

// zip container model: the archive is a list of (FileHeader, bytes) entries kept in
// the model; the bytes written to the underlying writer are only a 3-byte marker
// naming the archive. The zip/deflate formats themselves are library code and
// outside the claim; wharf's code only walks entries.

import (
	"bytes"
	"errors"
	"io"
	"math"
	"os"

	"github.com/itchio/arkive/zip"
	"github.com/itchio/httpkit/eos"
	"github.com/itchio/httpkit/eos/option"
	"github.com/itchio/wharf/zzverif/model"
	"github.com/itchio/wharf/zzverif/rt"
)

type zipEntry struct {
	fh   zip.FileHeader
	data []byte
}

type zipArchive struct{ entries []*zipEntry }

var zipArchives []*zipArchive

type zipWriterState struct {
	a      *zipArchive
	id     int
	w      io.Writer
	closed bool
}

type zipEntryWriter struct{ e *zipEntry }

func (w *zipEntryWriter) Write(p []byte) (int, error) {
	w.e.data = append(w.e.data, p...)
	return len(p), nil
}

func ZipNewWriter(w io.Writer) *zip.Writer {
	zw := new(zip.Writer)
	a := &zipArchive{}
	zipArchives = append(zipArchives, a)
	rt.Attach(zw, &zipWriterState{a: a, id: len(zipArchives) - 1, w: w})
	return zw
}

func zipState(zw *zip.Writer) *zipWriterState {
	st, _ := rt.Attached(zw).(*zipWriterState)
	return st
}

func ZipCreateHeader(zw *zip.Writer, fh *zip.FileHeader) (io.Writer, error) {
	st := zipState(zw)
	if st == nil || st.closed {
		return nil, errors.New("zip: write to closed archive")
	}
	e := &zipEntry{fh: *fh}
	st.a.entries = append(st.a.entries, e)
	return &zipEntryWriter{e}, nil
}

func ZipWriterClose(zw *zip.Writer) error {
	st := zipState(zw)
	if st == nil || st.closed {
		return errors.New("zip: writer closed twice")
	}
	st.closed = true
	_, err := st.w.Write([]byte{'G', 'Z', byte(st.id)})
	return err
}

func ZipNewReader(r io.ReaderAt, size int64) (*zip.Reader, error) {
	if size < 3 {
		return nil, zip.ErrFormat
	}
	var m [3]byte
	if _, err := r.ReadAt(m[:], size-3); err != nil && err != io.EOF {
		return nil, err
	}
	if m[0] != 'G' || m[1] != 'Z' || int(m[2]) >= len(zipArchives) {
		return nil, zip.ErrFormat
	}
	a := zipArchives[m[2]]
	zr := new(zip.Reader)
	for _, e := range a.entries {
		f := new(zip.File)
		f.FileHeader = e.fh
		f.UncompressedSize64 = uint64(len(e.data))
		if len(e.data) < math.MaxUint32 {
			f.UncompressedSize = uint32(len(e.data))
		}
		rt.Attach(f, e)
		zr.File = append(zr.File, f)
	}
	return zr, nil
}

type nopCloser struct{ io.Reader }

func (nopCloser) Close() error { return nil }

func ZipFileOpen(f *zip.File) (io.ReadCloser, error) {
	e, _ := rt.Attached(f).(*zipEntry)
	if e == nil {
		return nil, zip.ErrFormat
	}
	return nopCloser{bytes.NewReader(e.data)}, nil
}

func ZipFileInfoHeader(fi os.FileInfo) (*zip.FileHeader, error) {
	size := fi.Size()
	fh := &zip.FileHeader{Name: fi.Name(), UncompressedSize64: uint64(size)}
	fh.SetMode(fi.Mode())
	if fh.UncompressedSize64 > math.MaxUint32 {
		fh.UncompressedSize = math.MaxUint32
	} else {
		fh.UncompressedSize = uint32(fh.UncompressedSize64)
	}
	return fh, nil
}

// EosOpen: local paths only.
func EosOpen(name string, opts ...option.Option) (eos.File, error) {
	return model.OsOpen(name)
}

// InitZip replaces package zip's initialiser (which registers real compressors).
func InitZip() {
	zip.ErrFormat = errors.New("zip: not a valid zip file")
	zip.ErrAlgorithm = errors.New("zip: unsupported compression algorithm")
	zip.ErrChecksum = errors.New("zip: checksum error")
}
