#!/usr/bin/env python3
import json
scale=[{"set":"b%d"%b,"file":"pwr/constants.go","ident":"BlockSize","value":str(b)} for b in (2,3,4)]
def grid(B, nsmax, extra):
    return [{"ns":ns,"nw":nw} for ns in range(0,nsmax+1) for nw in range(0,ns+extra+1)]
H=[{"name":"H_witness","tiers":["quick","thorough"],"expect":"violation","bounds":"vacuity witness"}]
Q=["quick","thorough"]; T=["thorough"]
def cap(name, ps):
    # every slicing of nw bytes = 2^(nw-1) paths times the content branching: beyond these lengths an instance exceeds its budget
    lim = 11 if name=="H_error" else 7
    return [p for p in ps if p["nw"]<=lim]
for name in ("H_error","H_wound"):
    H.append({"name":name,"tiers":Q,"scale":"b2","bounds":"B=2; signed 0..2B+1; written 0..signed+B+1; all byte values; every slicing of the written bytes into Write calls","param_sets":grid(2,5,3)})
    H.append({"name":name,"tiers":Q,"scale":"b3","bounds":"B=3; signed 0..B+1; written 0..signed+2","param_sets":grid(3,4,2)})
    H.append({"name":name,"tiers":T,"scale":"b2","bounds":"B=2; signed 6..3B+1; written 0..signed+B+1","max_seconds":900,"param_sets":cap(name,[p for p in grid(2,7,3) if p["ns"]>5])})
    H.append({"name":name,"tiers":T,"scale":"b3","bounds":"B=3; signed 5..2B+1; written 0..signed+B+1","max_seconds":900,"param_sets":cap(name,[p for p in grid(3,7,4) if p["ns"]>4 or p["nw"]>p["ns"]+2])})
    H.append({"name":name,"tiers":T,"scale":"b4","bounds":"B=4; signed 0..2B+1; written 0..signed+B+1","max_seconds":900,"param_sets":cap(name,grid(4,9,5))})
H.append({"name":"H_error","tiers":Q,"scale":"b2","bounds":"B=2; signed 2..2B+1; written 0..signed+B+1; the writer is closed after the failing Write (as a deferred Close does): still nothing from the bad block on may reach the inner pool","param_sets":[dict(p,closeafter=1) for p in grid(2,5,3) if p["ns"]>=2]})
H.append({"name":"H_interleave","tiers":Q,"scale":"b2","bounds":"B=2: two files (3 and 3, 2 and 4, 1 and 3 bytes) written byte by byte through two writers of one pool that are open at the same time, every interleaving; second file pristine or differing in its last byte",
  "param_sets":[{"n0":a,"n1":b,"bad":x} for (a,b) in ((3,3),(2,4),(1,3)) for x in (0,1)]})
H.append({"name":"H_error_real","tiers":Q,"max_steps":2000000000,"bounds":"REGIME R (no constant scaled): signed 2 blocks + 100 bytes concrete; one symbolic written byte in block 0, 1 or the short block 2; writes of 32 KiB, 64 KiB+1 and 100000 bytes",
  "param_sets":[{"blk":b,"chunk":c} for b in (0,1,2) for c in (32768,65537,100000)]})
json.dump({"property":"C18","package":"c18","scale":scale,"harnesses":H,
 "stubs":["crypto/md5 -> injective model","os -> in-memory file system model (only used to sign the reference file)","inner pool = recording pool written in the harness"],
 "outside":["block size 64 KiB (declared value scaled to 2..4; uses are the real code)","files longer than 3B+1"]},open("config.json","w"),indent=1)
for h in H: print(h["name"],h["tiers"],h.get("scale"),len(h.get("param_sets",[1])))
