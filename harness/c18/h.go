// Package c18: writing through a validating pool checks every block regardless of write sizes.
package c18

import (
	"bytes"
	"io"

	"github.com/itchio/lake/tlc"
	"github.com/itchio/wharf/pwr"
	"github.com/itchio/wharf/zzverif/hlib"
	"github.com/itchio/wharf/zzverif/rt"
)

func H_witness() {
	a := rt.Byte("a")
	rt.Assert(a != 9, "witness")
	rt.Reach("end")
}

type recWriter struct {
	buf    bytes.Buffer
	closed bool
}

func (w *recWriter) Write(p []byte) (int, error) { return w.buf.Write(p) }
func (w *recWriter) Close() error                { w.closed = true; return nil }

type recPool struct {
	c *tlc.Container
	w *recWriter
}

func (p *recPool) GetSize(i int64) int64                        { return p.c.Files[i].Size }
func (p *recPool) GetReader(i int64) (io.Reader, error)         { return bytes.NewReader(nil), nil }
func (p *recPool) GetReadSeeker(i int64) (io.ReadSeeker, error) { return bytes.NewReader(nil), nil }
func (p *recPool) Close() error                                 { return nil }
func (p *recPool) GetWriter(i int64) (io.WriteCloser, error) {
	p.w = &recWriter{}
	return p.w, nil
}

func setup(ns int) (*pwr.SignatureInfo, []byte, *recPool) {
	hlib.SetCopyBuf()
	S := rt.Bytes("signed", ns)
	root := rt.TempDir()
	(&hlib.Build{Files: []hlib.File{{Path: "f", Data: S}}}).Write(root + "/s")
	sig := hlib.SigOf(root + "/s")
	return sig, S, &recPool{c: sig.Container}
}

// H_error: error mode. Params ns (signed length), nw (written length).
func H_error() {
	B := hlib.B()
	ns, nw := rt.Param("ns"), rt.Param("nw")
	sig, S, inner := setup(ns)
	W := rt.Bytes("written", nw)
	vp := &pwr.ValidatingPool{Pool: inner, Container: sig.Container, Signature: sig}
	w, err := vp.GetWriter(0)
	hlib.Must(err, "GetWriter")

	failed, failedClose := false, false
	failStart, failEnd := 0, 0
	pos := 0
	for pos < nw {
		n := 1 + rt.Choice("chunk", nw-pos)
		_, err := w.Write(W[pos : pos+n])
		if err != nil {
			failed, failStart, failEnd = true, pos, pos+n
			break
		}
		pos += n
	}
	if !failed {
		failedClose = w.Close() != nil
	} else if rt.HasParam("closeafter") {
		// callers close their writers whatever happened (defer w.Close()): still nothing may get through
		w.Close()
	}

	// reference: first block of the written data that is not the signed block at that position
	nbSigned := (ns + B - 1) / B
	bad := -1
	for j := 0; j*B < nw; j++ {
		wb := W[j*B : hlib.Min((j+1)*B, nw)]
		if j >= nbSigned {
			bad = j
			break
		}
		sb := S[j*B : hlib.Min((j+1)*B, ns)]
		if len(wb) != len(sb) || !rt.BytesEqual(wb, sb) {
			bad = j
			break
		}
	}
	got := inner.w.buf.Bytes()
	if bad < 0 {
		rt.Assert(!failed && !failedClose, "data equal to (a block-aligned prefix of) the signed content passes")
		rt.Assert(rt.BytesEqual(got, W), "inner pool received everything unchanged")
	} else {
		blockEnd := hlib.Min((bad+1)*B, nw)
		if blockEnd == (bad+1)*B {
			rt.Assert(failed, "the Write completing the bad block fails")
			rt.Assert(!failed || (failStart < blockEnd && blockEnd <= failEnd), "it is exactly the Write that completes the bad block")
		} else {
			rt.Assert(!failed, "no Write fails before the short bad block is complete")
			rt.Assert(failed || failedClose, "Close fails on a short bad block")
		}
		rt.Assert(rt.BytesEqual(got, W[:bad*B]), "nothing from the bad block on reaches the inner pool")
	}
	rt.Reach("end")
}

// H_wound: wound mode (raw per-block records, as GetWriter emits them).
func H_wound() {
	B := hlib.B()
	ns, nw := rt.Param("ns"), rt.Param("nw")
	sig, S, inner := setup(ns)
	W := rt.Bytes("written", nw)
	wounds := make(chan *pwr.Wound)
	var got []*pwr.Wound
	done := make(chan bool)
	go func() {
		for w := range wounds {
			got = append(got, w)
		}
		done <- true
	}()
	vp := &pwr.ValidatingPool{Pool: inner, Container: sig.Container, Signature: sig, Wounds: wounds}
	w, err := vp.GetWriter(0)
	hlib.Must(err, "GetWriter")
	pos := 0
	for pos < nw {
		n := 1 + rt.Choice("chunk", nw-pos)
		_, err := w.Write(W[pos : pos+n])
		rt.Assert(err == nil, "wound mode never fails a Write")
		pos += n
	}
	rt.Assert(w.Close() == nil, "wound mode never fails Close")
	close(wounds)
	<-done

	nbSigned := (ns + B - 1) / B
	nbWritten := (nw + B - 1) / B
	rt.Assert(len(got) == nbWritten, "one record per written block")
	for j, wd := range got {
		if j >= nbWritten {
			break
		}
		rt.Assert(wd.Index == 0, "record names the file")
		rt.Assert(wd.Start == int64(j*B), "records in offset order without gaps")
		rt.Assert(wd.Start <= wd.End, "well-formed range")
		wb := W[j*B : hlib.Min((j+1)*B, nw)]
		if j < nbSigned {
			sb := S[j*B : hlib.Min((j+1)*B, ns)]
			rt.Assert(wd.End == int64(hlib.Min((j+1)*B, ns)), "record ends at the signed block end")
			same := len(wb) == len(sb) && rt.BytesEqual(wb, sb)
			if same {
				rt.Assert(wd.Kind == pwr.WoundKind_CLOSED_FILE, "equal block marked healthy")
			} else {
				rt.Assert(wd.Kind == pwr.WoundKind_FILE, "differing block marked as wound")
			}
		} else {
			rt.Assert(wd.Kind == pwr.WoundKind_FILE, "block beyond the signed count is a wound")
		}
	}
	rt.Assert(rt.BytesEqual(inner.w.buf.Bytes(), W), "wound mode passes all data through")
	rt.Reach("end")
}
