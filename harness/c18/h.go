// Package c18: writing through a validating pool checks every block regardless of write sizes.
package c18

import (
	"bytes"
	"io"

	"github.com/itchio/lake/tlc"
	"github.com/itchio/wharf/pwr"
	"github.com/itchio/wharf/zzverif/hlib"
	"github.com/itchio/wharf/zzverif/rt"
)

func H_witness() {
	a := rt.Byte("a")
	rt.Assert(a != 9, "witness")
	rt.Reach("end")
}

type recWriter struct {
	buf    bytes.Buffer
	closed bool
}

func (w *recWriter) Write(p []byte) (int, error) { return w.buf.Write(p) }
func (w *recWriter) Close() error                { w.closed = true; return nil }

type recPool struct {
	c *tlc.Container
	w *recWriter
}

func (p *recPool) GetSize(i int64) int64                        { return p.c.Files[i].Size }
func (p *recPool) GetReader(i int64) (io.Reader, error)         { return bytes.NewReader(nil), nil }
func (p *recPool) GetReadSeeker(i int64) (io.ReadSeeker, error) { return bytes.NewReader(nil), nil }
func (p *recPool) Close() error                                 { return nil }
func (p *recPool) GetWriter(i int64) (io.WriteCloser, error) {
	p.w = &recWriter{}
	return p.w, nil
}

func setup(ns int) (*pwr.SignatureInfo, []byte, *recPool) {
	hlib.SetCopyBuf()
	S := rt.Bytes("signed", ns)
	root := rt.TempDir()
	(&hlib.Build{Files: []hlib.File{{Path: "f", Data: S}}}).Write(root + "/s")
	sig := hlib.SigOf(root + "/s")
	return sig, S, &recPool{c: sig.Container}
}

// H_error: error mode. Params ns (signed length), nw (written length).
func H_error() {
	B := hlib.B()
	ns, nw := rt.Param("ns"), rt.Param("nw")
	sig, S, inner := setup(ns)
	W := rt.Bytes("written", nw)
	vp := &pwr.ValidatingPool{Pool: inner, Container: sig.Container, Signature: sig}
	w, err := vp.GetWriter(0)
	hlib.Must(err, "GetWriter")

	failed, failedClose := false, false
	failStart, failEnd := 0, 0
	pos := 0
	for pos < nw {
		n := 1 + rt.Choice("chunk", nw-pos)
		_, err := w.Write(W[pos : pos+n])
		if err != nil {
			failed, failStart, failEnd = true, pos, pos+n
			break
		}
		pos += n
	}
	if !failed {
		failedClose = w.Close() != nil
	} else if rt.HasParam("closeafter") {
		// callers close their writers whatever happened (defer w.Close()): still nothing may get through
		w.Close()
	}

	// reference: first block of the written data that is not the signed block at that position
	nbSigned := (ns + B - 1) / B
	bad := -1
	for j := 0; j*B < nw; j++ {
		wb := W[j*B : hlib.Min((j+1)*B, nw)]
		if j >= nbSigned {
			bad = j
			break
		}
		sb := S[j*B : hlib.Min((j+1)*B, ns)]
		if len(wb) != len(sb) || !rt.BytesEqual(wb, sb) {
			bad = j
			break
		}
	}
	got := inner.w.buf.Bytes()
	if bad < 0 {
		rt.Assert(!failed && !failedClose, "data equal to (a block-aligned prefix of) the signed content passes")
		rt.Assert(rt.BytesEqual(got, W), "inner pool received everything unchanged")
	} else {
		blockEnd := hlib.Min((bad+1)*B, nw)
		if blockEnd == (bad+1)*B {
			rt.Assert(failed, "the Write completing the bad block fails")
			rt.Assert(!failed || (failStart < blockEnd && blockEnd <= failEnd), "it is exactly the Write that completes the bad block")
		} else {
			rt.Assert(!failed, "no Write fails before the short bad block is complete")
			rt.Assert(failed || failedClose, "Close fails on a short bad block")
		}
		rt.Assert(rt.BytesEqual(got, W[:bad*B]), "nothing from the bad block on reaches the inner pool")
	}
	rt.Reach("end")
}

// H_wound: wound mode (raw per-block records, as GetWriter emits them).
func H_wound() {
	B := hlib.B()
	ns, nw := rt.Param("ns"), rt.Param("nw")
	sig, S, inner := setup(ns)
	W := rt.Bytes("written", nw)
	wounds := make(chan *pwr.Wound)
	var got []*pwr.Wound
	done := make(chan bool)
	go func() {
		for w := range wounds {
			got = append(got, w)
		}
		done <- true
	}()
	vp := &pwr.ValidatingPool{Pool: inner, Container: sig.Container, Signature: sig, Wounds: wounds}
	w, err := vp.GetWriter(0)
	hlib.Must(err, "GetWriter")
	pos := 0
	for pos < nw {
		n := 1 + rt.Choice("chunk", nw-pos)
		_, err := w.Write(W[pos : pos+n])
		rt.Assert(err == nil, "wound mode never fails a Write")
		pos += n
	}
	rt.Assert(w.Close() == nil, "wound mode never fails Close")
	close(wounds)
	<-done

	nbSigned := (ns + B - 1) / B
	nbWritten := (nw + B - 1) / B
	rt.Assert(len(got) == nbWritten, "one record per written block")
	for j, wd := range got {
		if j >= nbWritten {
			break
		}
		rt.Assert(wd.Index == 0, "record names the file")
		rt.Assert(wd.Start == int64(j*B), "records in offset order without gaps")
		rt.Assert(wd.Start <= wd.End, "well-formed range")
		wb := W[j*B : hlib.Min((j+1)*B, nw)]
		if j < nbSigned {
			sb := S[j*B : hlib.Min((j+1)*B, ns)]
			rt.Assert(wd.End == int64(hlib.Min((j+1)*B, ns)), "record ends at the signed block end")
			same := len(wb) == len(sb) && rt.BytesEqual(wb, sb)
			if same {
				rt.Assert(wd.Kind == pwr.WoundKind_CLOSED_FILE, "equal block marked healthy")
			} else {
				rt.Assert(wd.Kind == pwr.WoundKind_FILE, "differing block marked as wound")
			}
		} else {
			rt.Assert(wd.Kind == pwr.WoundKind_FILE, "block beyond the signed count is a wound")
		}
	}
	rt.Assert(rt.BytesEqual(inner.w.buf.Bytes(), W), "wound mode passes all data through")
	rt.Reach("end")
}

// multiPool records per file.
type multiPool struct {
	c  *tlc.Container
	ws map[int64]*recWriter
}

func (p *multiPool) GetSize(i int64) int64                        { return p.c.Files[i].Size }
func (p *multiPool) GetReader(i int64) (io.Reader, error)         { return bytes.NewReader(nil), nil }
func (p *multiPool) GetReadSeeker(i int64) (io.ReadSeeker, error) { return bytes.NewReader(nil), nil }
func (p *multiPool) Close() error                                 { return nil }
func (p *multiPool) GetWriter(i int64) (io.WriteCloser, error) {
	w := &recWriter{}
	p.ws[i] = w
	return w, nil
}

// H_interleave: two files of one validating pool written through two writers that are open at the same time,
// their Write calls interleaved in every order (a WritablePool may hand out several writers); the first file's
// content is the signed one, the second one's is signed or differs in its last byte. Params n0, n1, bad.
func H_interleave() {
	hlib.SetCopyBuf()
	B := hlib.B()
	n0, n1 := rt.Param("n0"), rt.Param("n1")
	S0, S1 := rt.Bytes("signed0", n0), rt.Bytes("signed1", n1)
	root := rt.TempDir()
	(&hlib.Build{Files: []hlib.File{{Path: "a", Data: S0}, {Path: "b", Data: S1}}}).Write(root + "/s")
	sig := hlib.SigOf(root + "/s")
	inner := &multiPool{c: sig.Container, ws: map[int64]*recWriter{}}
	vp := &pwr.ValidatingPool{Pool: inner, Container: sig.Container, Signature: sig}
	W1 := append([]byte{}, S1...)
	bad := rt.Param("bad") == 1 && n1 > 0
	if bad {
		W1[n1-1] = rt.Byte("other")
		rt.Assume(W1[n1-1] != S1[n1-1])
	}
	w0, err := vp.GetWriter(0)
	hlib.Must(err, "GetWriter 0")
	w1, err := vp.GetWriter(1)
	hlib.Must(err, "GetWriter 1")
	p0, p1 := 0, 0
	fail0, fail1 := false, false
	for p0 < n0 || p1 < n1 {
		first := p1 >= n1 || (p0 < n0 && rt.Choice("who", 2) == 0)
		if first {
			_, err := w0.Write(S0[p0 : p0+1])
			fail0 = fail0 || err != nil
			p0++
		} else {
			_, err := w1.Write(W1[p1 : p1+1])
			fail1 = fail1 || err != nil
			p1++
		}
	}
	fail0 = (w0.Close() != nil) || fail0
	fail1 = (w1.Close() != nil) || fail1
	rt.Assert(!fail0, "the file written with its signed content passes whatever the other writer does")
	rt.Assert(rt.BytesEqual(inner.ws[0].buf.Bytes(), S0), "its bytes reach the inner pool unchanged")
	if bad {
		rt.Assert(fail1, "the differing file is refused whatever the other writer does")
		lastBlockStart := ((n1 - 1) / B) * B
		rt.Assert(rt.BytesEqual(inner.ws[1].buf.Bytes(), S1[:lastBlockStart]), "nothing from its bad block reaches the inner pool")
	} else {
		rt.Assert(!fail1, "the second file written with its signed content passes too")
		rt.Assert(rt.BytesEqual(inner.ws[1].buf.Bytes(), S1), "and its bytes reach the inner pool unchanged")
	}
	rt.Reach("end")
}

// H_error_real: REGIME R (64 KiB blocks). Signed file of 2 blocks + 100 bytes (concrete); written = signed with one
// symbolic byte in block blk; written in writes of `chunk` bytes (32 KiB as the validator does, 64 KiB+1, 100000).
// Same oracle as H_error. Params blk, chunk.
func H_error_real() {
	hlib.SetCopyBuf()
	B := hlib.B()
	blk, chunk := rt.Param("blk"), rt.Param("chunk")
	S := make([]byte, 2*B+100)
	x := uint32(5)
	for i := range S {
		x = x*1103515245 + 12345
		S[i] = byte(x >> 16)
	}
	root := rt.TempDir()
	(&hlib.Build{Files: []hlib.File{{Path: "f", Data: S}}}).Write(root + "/s")
	sig := hlib.SigOf(root + "/s")
	inner := &recPool{c: sig.Container}
	W := append([]byte{}, S...)
	pos := blk*B + 17
	d := rt.Byte("written-byte")
	W[pos] = d
	vp := &pwr.ValidatingPool{Pool: inner, Container: sig.Container, Signature: sig}
	w, err := vp.GetWriter(0)
	hlib.Must(err, "GetWriter")
	failed := false
	failEnd := 0
	for p := 0; p < len(W) && !failed; p += chunk {
		e := hlib.Min(p+chunk, len(W))
		if _, err := w.Write(W[p:e]); err != nil {
			failed, failEnd = true, e
		}
	}
	closeFailed := w.Close() != nil
	got := inner.w.buf.Bytes()
	if d == S[pos] {
		rt.Assert(!failed && !closeFailed, "data equal to the signed content passes (real constants)")
		rt.Assert(len(got) == len(W) && rt.BytesEqual(got, W), "inner pool received everything unchanged (real constants)")
	} else {
		blockEnd := hlib.Min((blk+1)*B, len(W))
		if blockEnd == (blk+1)*B {
			rt.Assert(failed && failEnd >= blockEnd && failEnd-chunk < blockEnd, "the Write completing the bad block fails (real constants)")
		} else {
			rt.Assert(failed || closeFailed, "Close fails on the short bad block (real constants)")
		}
		rt.Assert(len(got) == blk*B && rt.BytesEqual(got, W[:blk*B]), "nothing from the bad block on reaches the inner pool (real constants)")
	}
	rt.Reach("end")
}
