// Package c05: validation reports every deviation from the signed build and locates it.
package c05

import (
	"context"
	"os"

	"github.com/itchio/wharf/pwr"
	"github.com/itchio/wharf/zzverif/hlib"
	"github.com/itchio/wharf/zzverif/rt"
)

func H_witness() {
	a := rt.Byte("a")
	rt.Assert(a != 9, "witness")
	rt.Reach("end")
}

// validateBoth runs wounds-file validation and fail-fast validation on dir.
func validateBoth(root, dir string, sig *pwr.SignatureInfo) (wounds []*pwr.Wound, failFastErr error) {
	wp := root + "/wounds.pww"
	vctx := &pwr.ValidatorContext{WoundsPath: wp, Consumer: hlib.Consumer}
	err := vctx.Validate(context.Background(), dir, sig)
	rt.Assert(err == nil, "wounds-file validation returns no error")
	if data, rerr := os.ReadFile(wp); rerr == nil {
		_, wounds = hlib.ReadWounds(data)
	}
	ff := &pwr.ValidatorContext{FailFast: true, Consumer: hlib.Consumer}
	failFastErr = ff.Validate(context.Background(), dir, sig)
	return
}

func checkWoundsWellFormed(wounds []*pwr.Wound, sig *pwr.SignatureInfo) {
	for _, w := range wounds {
		switch w.Kind {
		case pwr.WoundKind_FILE:
			rt.Assert(w.Index >= 0 && w.Index < int64(len(sig.Container.Files)), "file wound names an existing file")
			rt.Assert(0 <= w.Start && w.Start <= w.End, "file wound has a well-formed range (0 <= start <= end)")
		case pwr.WoundKind_DIR:
			rt.Assert(w.Index >= 0 && w.Index < int64(len(sig.Container.Dirs)), "dir wound names an existing dir")
		case pwr.WoundKind_SYMLINK:
			rt.Assert(w.Index >= 0 && w.Index < int64(len(sig.Container.Symlinks)), "symlink wound names an existing symlink")
		default:
			rt.Fail("wound of unexpected kind in wounds file")
		}
	}
}

// H_content: one signed file; on disk the file has independent content and length.
// Params: ns (signed length), na (actual length).
func H_content() {
	hlib.SetCopyBuf()
	ns, na := rt.Param("ns"), rt.Param("na")
	S := rt.Bytes("signed", ns)
	A := rt.Bytes("actual", na)
	root := rt.TempDir()
	(&hlib.Build{Files: []hlib.File{{Path: "f", Data: S}}}).Write(root + "/s")
	sig := hlib.SigOf(root + "/s")
	(&hlib.Build{Files: []hlib.File{{Path: "f", Data: A}}}).Write(root + "/d")

	wounds, ffErr := validateBoth(root, root+"/d", sig)
	checkWoundsWellFormed(wounds, sig)

	fileWounds := 0
	for _, w := range wounds {
		if w.Kind == pwr.WoundKind_FILE && w.Index == 0 {
			fileWounds++
		}
	}
	// every differing offset below the signed length lies inside a wound
	for o := 0; o < ns && o < na; o++ {
		covered := false
		for _, w := range wounds {
			if w.Kind == pwr.WoundKind_FILE && w.Index == 0 && w.Start <= int64(o) && int64(o) < w.End {
				covered = true
			}
		}
		rt.Assert(rt.Implies(A[o] != S[o], covered), "differing offset lies inside a reported wound")
	}
	if ns != na {
		rt.Assert(fileWounds >= 1, "a file shorter or longer than signed gets at least one wound")
		rt.Assert(ffErr != nil, "fail-fast validation rejects a file of the wrong length")
	} else {
		same := rt.BytesEqual(A, S)
		if same {
			rt.Assert(len(wounds) == 0, "an undamaged file gets no wound")
			rt.Assert(ffErr == nil, "fail-fast validation accepts an undamaged file")
		} else {
			rt.Assert(fileWounds >= 1, "a differing file gets at least one wound")
			rt.Assert(ffErr != nil, "fail-fast validation rejects a differing file")
		}
	}
	rt.Reach("end")
}

// H_kinds: a build with a file, an (empty) directory and a symlink; each entry is
// independently as signed / missing / replaced by another kind / (symlink) retargeted.
func H_kinds() {
	hlib.SetCopyBuf()
	S := rt.Bytes("signed", rt.Param("ns"))
	root := rt.TempDir()
	signed := &hlib.Build{Files: []hlib.File{{Path: "f", Data: S}}, Dirs: []string{"d", "p/q"}, Links: []hlib.Link{{Path: "l", Dest: "f"}}}
	signed.Write(root + "/s")
	sig := hlib.SigOf(root + "/s")

	dir := root + "/t"
	hlib.Must(os.MkdirAll(dir, 0o755), "mkdir")
	fk := rt.Choice("file-state", 5)   // 0 as signed, 1 missing, 2 dir instead, 3 dangling symlink instead, 4 symlink to a file with the signed content
	dk := rt.Choice("dir-state", 4)    // 0 as signed, 1 missing, 2 file instead, 3 symlink to a directory instead
	lk := rt.Choice("link-state", 5)   // 0 as signed, 1 missing, 2 retargeted, 3 file instead, 4 dir instead
	pk := rt.Choice("nested-dir-state", 4) // 0 as signed, 1 parent replaced by a regular file, 2 parent missing, 3 parent replaced by a symlink to a directory with the same layout
	switch pk {
	case 0:
		hlib.Must(os.MkdirAll(dir+"/p/q", 0o755), "mkdir")
	case 1:
		hlib.Must(os.WriteFile(dir+"/p", []byte{3}, 0o644), "write")
	case 3:
		hlib.Must(os.MkdirAll(root+"/elsewhere-p/q", 0o755), "mkdir")
		hlib.Must(os.Symlink(root+"/elsewhere-p", dir+"/p"), "symlink")
	}
	switch fk {
	case 0:
		hlib.Must(os.WriteFile(dir+"/f", S, 0o644), "write")
	case 2:
		hlib.Must(os.MkdirAll(dir+"/f", 0o755), "mkdir")
	case 3:
		hlib.Must(os.Symlink("nowhere", dir+"/f"), "symlink")
	case 4:
		hlib.Must(os.WriteFile(root+"/elsewhere-f", S, 0o644), "write")
		hlib.Must(os.Symlink(root+"/elsewhere-f", dir+"/f"), "symlink")
	}
	switch dk {
	case 0:
		hlib.Must(os.MkdirAll(dir+"/d", 0o755), "mkdir")
	case 2:
		hlib.Must(os.WriteFile(dir+"/d", []byte{1}, 0o644), "write")
	case 3:
		hlib.Must(os.MkdirAll(root+"/elsewhere-d", 0o755), "mkdir")
		hlib.Must(os.Symlink(root+"/elsewhere-d", dir+"/d"), "symlink")
	}
	switch lk {
	case 0:
		hlib.Must(os.Symlink("f", dir+"/l"), "symlink")
	case 2:
		hlib.Must(os.Symlink("g", dir+"/l"), "symlink")
	case 3:
		hlib.Must(os.WriteFile(dir+"/l", []byte{2}, 0o644), "write")
	case 4:
		hlib.Must(os.MkdirAll(dir+"/l", 0o755), "mkdir")
	}

	wounds, ffErr := validateBoth(root, dir, sig)
	checkWoundsWellFormed(wounds, sig)
	has := func(kind pwr.WoundKind) bool {
		for _, w := range wounds {
			if w.Kind == kind && w.Index == 0 {
				return true
			}
		}
		return false
	}
	if fk != 0 {
		rt.Assert(has(pwr.WoundKind_FILE), "missing / wrong-kind file gets a wound")
	}
	if dk != 0 || pk != 0 {
		rt.Assert(has(pwr.WoundKind_DIR) || hasDirWound(wounds), "missing / wrong-kind directory gets a wound")
	}
	if lk != 0 {
		rt.Assert(has(pwr.WoundKind_SYMLINK), "missing / wrong-kind / retargeted symlink gets a wound")
	}
	if fk != 0 || dk != 0 || lk != 0 || pk != 0 {
		rt.Assert(ffErr != nil, "fail-fast validation rejects the deviating directory")
	} else {
		rt.Assert(len(wounds) == 0 && ffErr == nil, "an undamaged directory is valid")
	}
	rt.Reach("end")
}

func hasDirWound(wounds []*pwr.Wound) bool {
	for _, w := range wounds {
		if w.Kind == pwr.WoundKind_DIR {
			return true
		}
	}
	return false
}

// H_content_real: REGIME R (64 KiB blocks, 4 MiB MaxWoundSize, 32 KiB copies). One signed file of nb blocks + 100
// bytes, concrete; on disk it differs in ONE symbolic byte at the start of block blk (or is one byte short / long:
// delta). Every differing offset must be covered by a wound, fail-fast must reject. Params nb, blk, delta.
func H_content_real() {
	hlib.SetCopyBuf()
	B := hlib.B()
	nb, blk, delta := rt.Param("nb"), rt.Param("blk"), rt.Param("delta")
	S := make([]byte, nb*B+100)
	x := uint32(99)
	for i := range S {
		x = x*1103515245 + 12345
		S[i] = byte(x >> 16)
	}
	A := append([]byte{}, S...)
	pos := blk * B
	d := rt.Byte("damaged")
	A[pos] = d
	if delta < 0 {
		A = A[:len(A)+delta]
	} else if delta > 0 {
		A = append(A, make([]byte, delta)...)
	}
	root := rt.TempDir()
	(&hlib.Build{Files: []hlib.File{{Path: "f", Data: S}}}).Write(root + "/s")
	sig := hlib.SigOf(root + "/s")
	(&hlib.Build{Files: []hlib.File{{Path: "f", Data: A}}}).Write(root + "/d")
	wounds, ffErr := validateBoth(root, root+"/d", sig)
	checkWoundsWellFormed(wounds, sig)
	covered := false
	for _, w := range wounds {
		if w.Kind == pwr.WoundKind_FILE && w.Index == 0 && w.Start <= int64(pos) && int64(pos) < w.End {
			covered = true
		}
	}
	rt.Assert(rt.Implies(d != S[pos], covered), "the differing offset lies inside a reported wound (real constants)")
	if delta != 0 {
		rt.Assert(len(wounds) >= 1 && ffErr != nil, "a file of the wrong length is reported and rejected (real constants)")
	} else if d == S[pos] {
		rt.Assert(len(wounds) == 0 && ffErr == nil, "an undamaged file is valid (real constants)")
	} else {
		rt.Assert(ffErr != nil, "fail-fast validation rejects the differing file (real constants)")
	}
	rt.Reach("end")
}
