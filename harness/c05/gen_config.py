#!/usr/bin/env python3
import json
scale=[]
for b in (2,3,4):
    scale+=[{"set":"b%d"%b,"file":"pwr/constants.go","ident":"BlockSize","value":str(b)},
            {"set":"b%d"%b,"file":"pwr/validator.go","ident":"MaxWoundSize","value":str(2*b)}]
def grid(nsmax, extra): return [{"ns":ns,"na":na} for ns in range(0,nsmax+1) for na in range(0,ns+extra+1)]
Q=["quick","thorough"];T=["thorough"]
H=[{"name":"H_witness","tiers":Q,"expect":"violation","bounds":"vacuity witness"},
 {"name":"H_content","tiers":Q,"scale":"b2","bounds":"B=2, MaxWoundSize=2B: signed 0..2B+1, actual 0..signed+B+1, all byte values","param_sets":grid(5,3)},
 {"name":"H_content","tiers":Q,"scale":"b4","bounds":"B=4: signed 0..B+1, actual 0..signed+2","param_sets":grid(5,2)},
 {"name":"H_kinds","tiers":Q,"scale":"b4","bounds":"file + dir + symlink + nested dir: 5x4x5x4 on-disk states (as signed, missing, other kind, retargeted, parent replaced by a file, replaced by a symlink to an identical file / directory / tree), signed file 0..2 bytes","param_sets":[{"ns":0},{"ns":2}]},
 {"name":"H_content","tiers":T,"scale":"b3","bounds":"B=3: signed 0..2B+1, actual 0..signed+B+1","max_seconds":900,"param_sets":grid(7,4)},
 {"name":"H_content","tiers":T,"scale":"b4","bounds":"B=4: signed 0..2B+1, actual 0..signed+B+1","max_seconds":900,"param_sets":[p for p in grid(9,5) if p["ns"]>5 or p["na"]>p["ns"]+2]},
 {"name":"H_content","tiers":T,"scale":"b2","bounds":"B=2: signed 6..4B+1 (more than MaxWoundSize), actual 0..signed+B+1","max_seconds":900,"param_sets":[p for p in grid(9,3) if p["ns"]>5]},
]
H.append({"name":"H_content_real","tiers":["quick","thorough"],"max_steps":2000000000,"bounds":"REGIME R (no constant scaled): signed file of 2 blocks + 100 bytes, concrete; one symbolic damaged byte at the start of block 0, 1 or 2; the same one byte short / one byte long",
  "param_sets":[{"nb":2,"blk":b,"delta":0} for b in (0,1,2)]+[{"nb":2,"blk":1,"delta":d} for d in (-1,1)]})
json.dump({"property":"C05","package":"c05","scale":scale,"harnesses":H,
 "stubs":["os -> in-memory file system model","crypto/md5 -> injective model","goroutines run under the deterministic run-until-block schedule (schedules are C16's subject)","protobuf/wire -> tag-faithful codec model (wounds file)"],
 "outside":["block size 64 KiB and MaxWoundSize 4 MiB (declared values scaled; uses are the real code)","several damaged files at once beyond file+dir+symlink","strong-hash collisions"]},open("config.json","w"),indent=1)
for h in H: print(h["name"],h["tiers"],h.get("scale"),len(h.get("param_sets",[1])))
