#!/usr/bin/env python3
import json
Q=["quick","thorough"];T=["thorough"]
H=[{"name":"H_witness","tiers":Q,"expect":"violation","bounds":"vacuity witness"}]
H.append({"name":"H_lru","tiers":Q,"bounds":"chunk size 1..3, 1..2 cache entries, file length 0..5 (fully symbolic), every sequence of 3 operations (Seek with whence x symbolic offset in [-2,len+2], or Read of 0..4 bytes)",
  "param_sets":[{"cs":cs,"ne":ne,"n":n,"nops":3} for cs in (1,2,3) for ne in (1,2) for n in (0,2,4)]})
H.append({"name":"H_lru","tiers":T,"bounds":"chunk size 1..3, 1..3 entries, file length 0..4, every sequence of 4 operations (chunk size 4: file length 0..2; longer files exhaust the path budget)","max_seconds":900,
  "param_sets":[{"cs":cs,"ne":ne,"n":n,"nops":4} for cs in (1,2,3,4) for ne in (1,2,3) for n in range(0,5) if not (cs==4 and n>=3)]})
scale=[{"set":"s","file":"bsdiff/diff.go","func":"Do","match":"128 * 1024","value":"4"},
 {"set":"s","file":"bsdiff/patch.go","func":"NewIndividualPatchContext","ident":"minBufferSize","value":"2"},
 {"set":"s","file":"bsdiff/patch.go","func":"NewIndividualPatchContext","ident":"lruChunkSize","value":"2"},
 {"set":"s","file":"bsdiff/patch.go","func":"NewIndividualPatchContext","ident":"lruNumEntries","value":"2"}]
H.append({"name":"H_bsdiff","tiers":Q,"scale":"s","bounds":"alphabet {0,1}: old 0..4, new 0..4 bytes, partitions 0..6, concurrency 0; scan block 4, lru chunk 2 x 2 entries",
  "param_sets":[{"nold":a,"nnew":b,"alpha":2,"parts":p,"conc":0} for a in range(0,5) for b in range(0,5) for p in (0,1,2,3,6)]})
scale+=[{"set":"s4","file":"bsdiff/diff.go","func":"Do","match":"128 * 1024","value":"8"},
 {"set":"s4","file":"bsdiff/patch.go","func":"NewIndividualPatchContext","ident":"minBufferSize","value":"4"},
 {"set":"s4","file":"bsdiff/patch.go","func":"NewIndividualPatchContext","ident":"lruChunkSize","value":"4"},
 {"set":"s4","file":"bsdiff/patch.go","func":"NewIndividualPatchContext","ident":"lruNumEntries","value":"2"}]
scale+=[{"set":"w","file":"bsdiff/diff.go","func":"Do","match":"128 * 1024","value":"64"},
 {"set":"w","file":"bsdiff/patch.go","func":"NewIndividualPatchContext","ident":"minBufferSize","value":"4"},
 {"set":"w","file":"bsdiff/patch.go","func":"NewIndividualPatchContext","ident":"lruChunkSize","value":"4"},
 {"set":"w","file":"bsdiff/patch.go","func":"NewIndividualPatchContext","ident":"lruNumEntries","value":"2"}]
H.append({"name":"H_bsdiff_real","tiers":Q,"scale":"w","bounds":"scan block 64 (matches longer than bsdiff's 8-byte threshold exist), lru chunk 4 x 2 entries: concrete distinct old of 24..40 bytes, new by insertion / deletion / block move / duplication / two edits at 3 positions, and old = A T U B T with new = old + U (overlapping forward/backward match extensions at the end of old); also with a context already used for a larger pair (reuse), one fresh symbolic byte; partitions 0, 2, 3; series checked, applied through the LRU file, resumed from every saved offset",
  "param_sets":[{"nold":n,"shape":sh,"pos":p,"parts":pt,"conc":0} for n in (24,40) for sh in range(5) for p in (5,11,12) for pt in (0,2,3)]+
   [dict({"nold":48,"shape":5,"pos":k,"parts":pt,"conc":0},**t) for k in (6,9,12) for pt in (0,2) for t in ({},{"tail":1})]+
   [{"nold":24,"shape":sh,"pos":11,"parts":pt,"conc":0,"reuse":r} for sh in (0,2,3) for pt in (0,2) for r in (1,16)]})
H.append({"name":"H_bsdiff_edit","tiers":Q,"scale":"s4","bounds":"lru chunk 4 / copy buffer 4 / scan block 8, alphabet {0,1}: old of 5..9 bytes, new = old with one byte (every position) replaced by a fresh symbol: add regions that run to the end of the old file with the delta in any read slice, incl. the last short one; partitions 0..1",
  "param_sets":[{"nold":n,"pos":p,"alpha":2,"parts":q,"conc":0} for n in (5,6,7,9) for p in range(n) for q in (0,1)]})
H.append({"name":"H_bsdiff","tiers":T,"scale":"s","bounds":"alphabet {0,1,2}: old 0..5, new 0..6 (old+new <= 8), partitions 0..16","max_seconds":900,
  "param_sets":[{"nold":a,"nnew":b,"alpha":3,"parts":p,"conc":c} for a in range(0,6) for b in range(0,7) for p in (0,1,2,3,4,5,8,16) for c in (0,) if a+b<=8]})
json.dump({"property":"C12","package":"c12","scale":scale,"harnesses":H,
 "stubs":["old file = bytes.Reader"],
 "outside":["(this entry is extended below by the bsdiff harnesses when they are registered)","the real 32 MiB cache geometry","operation sequences longer than 4"]},open("config.json","w"),indent=1)
for h in H: print(h["name"],h["tiers"],h.get("scale"),len(h.get("param_sets",[1])))
