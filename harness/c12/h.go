// Package c12: a bsdiff series applied to the old file yields the new file; the
// read cache (lrufile) behaves like a plain reader.
package c12

import (
	"bytes"
	"io"

	"github.com/golang/protobuf/proto"
	"github.com/itchio/wharf/bsdiff"
	"github.com/itchio/wharf/bsdiff/lrufile"
	"github.com/itchio/wharf/zzverif/hlib"
	"github.com/itchio/wharf/zzverif/rt"
)

func H_witness() {
	a := rt.Byte("a")
	rt.Assert(a != 9, "witness")
	rt.Reach("end")
}

// H_lru: chunk size cs, entries ne, file length n, nops operations, each a symbolic
// choice of Seek(whence, symbolic offset in [-2, n+2]) or Read(k), k in 0..4,
// compared with a reference position/content after every operation.
func H_lru() {
	cs, ne, n, nops := rt.Param("cs"), rt.Param("ne"), rt.Param("n"), rt.Param("nops")
	data := rt.Bytes("file", n)
	lf, err := lrufile.New(int64(cs), ne)
	hlib.Must(err, "lrufile.New")
	hlib.Must(lf.Reset(bytes.NewReader(data)), "Reset")
	pos := 0
	for i := 0; i < nops; i++ {
		if rt.Choice("op", 2) == 0 {
			whence := rt.Choice("whence", 3)
			off := rt.Int("offset", -2, n+2)
			target := off
			switch whence {
			case io.SeekCurrent:
				target = pos + off
			case io.SeekEnd:
				target = n + off
			}
			got, err := lf.Seek(int64(off), whence)
			if target < 0 || target > n {
				rt.Assert(err != nil, "seek outside [0,size] is an error")
				rt.Reach("end")
				return
			}
			rt.Assert(err == nil, "seek inside [0,size] succeeds")
			rt.Assert(got == int64(target), "seek returns the new offset")
			pos = rt.Concretize(target)
		} else {
			k := rt.Choice("read-len", 5)
			buf := make([]byte, k)
			cnt, err := lf.Read(buf)
			want := hlib.Min(k, n-pos)
			rt.Assert(cnt == want, "read count")
			rt.Assert(err == nil || err == io.EOF, "read error is nil or EOF")
			rt.Assert(want == k || err == io.EOF, "a read cut short by the end of file reports EOF")
			if cnt == want {
				rt.Assert(rt.BytesEqual(buf[:cnt], data[pos:pos+want]), "read content equals the file content at the reference position")
			}
			pos += want
		}
	}
	rt.Reach("end")
}

func restrict(b []byte, alpha int) {
	if alpha > 0 {
		for _, c := range b {
			rt.Assume(int(c) < alpha)
		}
	}
}

func cloneCtrl(c *bsdiff.Control) *bsdiff.Control {
	return &bsdiff.Control{Add: append([]byte{}, c.Add...), Copy: append([]byte{}, c.Copy...), Seek: c.Seek, Eof: c.Eof}
}

// diffSeries runs the real bsdiff differ and returns copies of its control messages.
func diffSeries(old, neu []byte, partitions, concurrency int) ([]*bsdiff.Control, error) {
	dctx := &bsdiff.DiffContext{Partitions: partitions, SuffixSortConcurrency: concurrency}
	if rt.HasParam("reuse") {
		// the context was used before, for a larger pair (the optimizer diffs file after file with one context):
		// its buffers and suffix array are reused
		prevOld, prevNew := make([]byte, len(old)+rt.Param("reuse")), make([]byte, len(neu)+rt.Param("reuse"))
		for i := range prevOld {
			prevOld[i] = byte(i*13 + 5)
		}
		copy(prevNew, prevOld[1:])
		hlib.Must(dctx.Do(bytes.NewReader(prevOld), bytes.NewReader(prevNew), func(m proto.Message) error { return nil }, hlib.Consumer), "previous use of the context")
	}
	var msgs []*bsdiff.Control
	err := dctx.Do(bytes.NewReader(old), bytes.NewReader(neu), func(m proto.Message) error {
		msgs = append(msgs, cloneCtrl(m.(*bsdiff.Control)))
		return nil
	}, hlib.Consumer)
	return msgs, err
}

// H_bsdiff. Params: nold, nnew, alpha (alphabet size), parts (partitions), conc (suffix sort concurrency).
func H_bsdiff() {
	nold, nnew, alpha := rt.Param("nold"), rt.Param("nnew"), rt.Param("alpha")
	old := rt.Bytes("old", nold)
	neu := rt.Bytes("new", nnew)
	restrict(old, alpha)
	restrict(neu, alpha)
	checkSeries(old, neu)
	rt.Reach("end")
}

// H_bsdiff_edit: new = old with the byte at `pos` replaced by a fresh symbol (same length:
// add regions that run to the end of the old file, with the delta anywhere, incl. the last
// short read slice). Params: nold, pos, alpha, parts.
func H_bsdiff_edit() {
	nold, alpha := rt.Param("nold"), rt.Param("alpha")
	old := rt.Bytes("old", nold)
	restrict(old, alpha)
	neu := append([]byte{}, old...)
	e := rt.Bytes("edit", 1)
	restrict(e, alpha)
	neu[rt.Param("pos")] = e[0]
	checkSeries(old, neu)
	rt.Reach("end")
}

func checkSeries(old, neu []byte) {
	nnew := len(neu)
	msgs, err := diffSeries(old, neu, rt.Param("parts"), rt.Param("conc"))
	rt.Assert(err == nil, "differ returns no error")
	rt.Assert(len(msgs) > 0 && msgs[len(msgs)-1].Eof, "series ends with an end-of-series message")
	total := 0
	for i, m := range msgs {
		if i < len(msgs)-1 {
			rt.Assert(!m.Eof, "only the last message is end-of-series")
		}
		total += len(m.Add) + len(m.Copy)
	}
	rt.Assert(total == nnew, "add+copy lengths add up to the new length")

	// apply the whole series
	var out bytes.Buffer
	i := 0
	pctx := bsdiff.NewPatchContext()
	perr := pctx.Patch(bytes.NewReader(old), &out, int64(nnew), func(m proto.Message) error {
		if i >= len(msgs) {
			return io.ErrUnexpectedEOF
		}
		*(m.(*bsdiff.Control)) = *cloneCtrl(msgs[i])
		i++
		return nil
	})
	rt.Assert(perr == nil, "applying the series returns no error")
	rt.Assert(rt.BytesEqual(out.Bytes(), neu), "series applied to old yields new")

	// apply from a saved old-offset in the middle: same remainder
	for cut := 1; cut < len(msgs)-1; cut++ {
		var o1 bytes.Buffer
		ipc, err := pctx.NewIndividualPatchContext(bytes.NewReader(old), 0, &o1)
		hlib.Must(err, "NewIndividualPatchContext")
		for _, m := range msgs[:cut] {
			rt.Assert(ipc.Apply(cloneCtrl(m)) == nil, "apply (first part)")
		}
		saved := ipc.OldOffset
		var o2 bytes.Buffer
		ipc2, err := bsdiff.NewPatchContext().NewIndividualPatchContext(bytes.NewReader(old), saved, &o2)
		hlib.Must(err, "NewIndividualPatchContext (resumed)")
		for _, m := range msgs[cut : len(msgs)-1] {
			rt.Assert(ipc2.Apply(cloneCtrl(m)) == nil, "apply (resumed part)")
		}
		whole := append(append([]byte{}, o1.Bytes()...), o2.Bytes()...)
		rt.Assert(rt.BytesEqual(whole, neu), "resuming from a saved old-offset gives the same remainder")
	}
}

// H_bsdiff_real: contents long enough for bsdiff's own match criterion (a match must beat the
// previous alignment by more than 8 bytes) with a 64-byte scan block: concrete distinct old bytes
// (suffix sorting), new derived by insertion / deletion / block move / duplication / two edits, with
// one fresh symbolic byte. Params: nold, shape, pos, parts.
func H_bsdiff_real() {
	nold, pos := rt.Param("nold"), rt.Param("pos")
	old := make([]byte, nold)
	for i := range old {
		old[i] = byte(i*7 + 3)
	}
	s := rt.Byte("fresh")
	var neu []byte
	switch rt.Param("shape") {
	case 0: // two bytes inserted at pos
		neu = append(append(append([]byte{}, old[:pos]...), s, 77), old[pos:]...)
	case 1: // three bytes deleted at pos, one appended
		neu = append(append(append([]byte{}, old[:pos]...), old[pos+3:]...), s)
	case 2: // the first pos bytes moved to the end
		neu = append(append(append([]byte{}, old[pos:]...), s), old[:pos]...)
	case 3: // the range [pos, pos+10) duplicated at the end
		neu = append(append(append([]byte{}, old...), s), old[pos:pos+10]...)
	case 4: // two edits far apart
		neu = append([]byte{}, old...)
		neu[pos] = s
		neu[nold-2] ^= 0x55
	case 5: // old = A T U B T, new = old + U: the appended chunk's preceding context T also occurs earlier in old, so the
		// forward extension of one match (up to the end of old) overlaps the backward extension of the next
		seg := func(from, n int) []byte { return append([]byte{}, old[from:from+n]...) }
		k := pos // segment length
		A, T, U, Bs := seg(0, k-2), seg(k, k), seg(2*k, k), seg(3*k, k-2)
		o2 := append(append(append(append(append([]byte{}, A...), T...), U...), Bs...), T...)
		neu = append(append([]byte{}, o2...), U...)
		if rt.HasParam("tail") {
			neu = append(neu, s)
		}
		old = o2
	}
	checkSeries(old, neu)
	rt.Reach("end")
}
