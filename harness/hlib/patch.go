package hlib

import (
	"io"

	"github.com/itchio/lake/tlc"
	"github.com/itchio/savior/seeksource"
	"github.com/itchio/wharf/bsdiff"
	"github.com/itchio/wharf/pwr"
	"github.com/itchio/wharf/wire"
)

// FileSeries is the series of operations a patch carries for one new file.
type FileSeries struct {
	Header *pwr.SyncHeader
	Ops    []*pwr.SyncOp     // rsync series
	Bsdiff *pwr.BsdiffHeader // bsdiff series (nil for rsync)
	Ctrls  []*bsdiff.Control
}

type ParsedPatch struct {
	Target, Source *tlc.Container
	Files          []*FileSeries
}

// ParsePatch reads an uncompressed patch back into its messages.
func ParsePatch(patch []byte) *ParsedPatch {
	src := seeksource.FromBytes(patch)
	_, err := src.Resume(nil)
	Must(err, "resume patch source")
	raw := wire.NewReadContext(src)
	Must(raw.ExpectMagic(pwr.PatchMagic), "patch magic")
	hdr := &pwr.PatchHeader{}
	Must(raw.ReadMessage(hdr), "patch header")
	rc, err := pwr.DecompressWire(raw, hdr.Compression)
	Must(err, "decompress wire")
	pp := &ParsedPatch{Target: &tlc.Container{}, Source: &tlc.Container{}}
	Must(rc.ReadMessage(pp.Target), "target container")
	Must(rc.ReadMessage(pp.Source), "source container")
	for {
		sh := &pwr.SyncHeader{}
		err := rc.ReadMessage(sh)
		if err != nil {
			if Cause(err) == io.EOF {
				break
			}
			Must(err, "sync header")
		}
		fs := &FileSeries{Header: sh}
		if sh.Type == pwr.SyncHeader_BSDIFF {
			fs.Bsdiff = &pwr.BsdiffHeader{}
			Must(rc.ReadMessage(fs.Bsdiff), "bsdiff header")
			for {
				c := &bsdiff.Control{}
				Must(rc.ReadMessage(c), "bsdiff control")
				fs.Ctrls = append(fs.Ctrls, c)
				if c.Eof {
					break
				}
			}
			end := &pwr.SyncOp{}
			Must(rc.ReadMessage(end), "bsdiff series end marker")
		} else {
			for {
				op := &pwr.SyncOp{}
				Must(rc.ReadMessage(op), "sync op")
				if op.Type == pwr.SyncOp_HEY_YOU_DID_IT {
					break
				}
				fs.Ops = append(fs.Ops, op)
			}
		}
		pp.Files = append(pp.Files, fs)
	}
	return pp
}

// FreshBytesOf counts the bytes carried by DATA operations of a file's rsync series.
func (fs *FileSeries) FreshBytesOf() int {
	n := 0
	for _, op := range fs.Ops {
		if op.Type == pwr.SyncOp_DATA {
			n += len(op.Data)
		}
	}
	return n
}
