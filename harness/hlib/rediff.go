package hlib

import (
	"bytes"
	"github.com/itchio/wharf/pwr"

	"github.com/itchio/lake/pools/fspool"
	"github.com/itchio/savior/seeksource"
	"github.com/itchio/wharf/pwr/rediff"
)

type RediffOpts struct {
	Partitions, Concurrency int
	ForceMapAll             bool
	SizeLimit               int64
	Compression             *pwr.CompressionSettings // nil = the instance parameter comp (default NONE)
}

// Optimize rewrites patch with the optimizer (bsdiff series substituted where files are mapped).
func Optimize(patch []byte, oldDir, newDir string, o RediffOpts) ([]byte, rediff.DiffMappings, error) {
	comp := o.Compression
	if comp == nil {
		comp = CodecParam()
	}
	rc, err := rediff.NewContext(rediff.Params{
		PatchReader:           seeksource.FromBytes(patch),
		Partitions:            o.Partitions,
		SuffixSortConcurrency: o.Concurrency,
		ForceMapAll:           o.ForceMapAll,
		RediffSizeLimit:       o.SizeLimit,
		Compression:           comp,
		Consumer:              Consumer,
	})
	if err != nil {
		return nil, nil, err
	}
	var out bytes.Buffer
	err = rc.Optimize(rediff.OptimizeParams{
		TargetPool:  fspool.New(rc.GetTargetContainer(), oldDir),
		SourcePool:  fspool.New(rc.GetSourceContainer(), newDir),
		PatchWriter: &out,
	})
	return out.Bytes(), rc.GetDiffMappings(), err
}
