package hlib

// Model compression codecs, plugged into wharf through its own registry
// (pwr.RegisterCompressor / RegisterDecompressor). The real gzip/brotli codecs are not
// encodable (cgo, input-length loops over symbolic data); what IS checkable is the wiring
// around them: which settings are announced in a header and which are used for the stream,
// that compressed streams are closed (the trailer), that a decompressing source resumes
// from its own checkpoints (nested, gob-registered checkpoint data) - everything wharf does
// *around* a codec. The model codec of an algorithm is: a two-byte header identifying the
// algorithm, every payload byte XORed with a per-algorithm key, a one-byte trailer written
// by Close. Decoding with the wrong algorithm, or a stream that was never closed, is an
// error - as with the real codecs. The same code runs in the engine and natively (the real
// compressor packages are not linked into the harness binaries).

import (
	"encoding/gob"
	"io"

	"github.com/itchio/savior"
	"github.com/itchio/wharf/pwr"
	"github.com/itchio/wharf/zzverif/rt"
	"github.com/pkg/errors"
)

const codecTrailer = 0xee

func codecKey(a pwr.CompressionAlgorithm) byte { return byte(0x35 + 0x40*int(a)) }

type modelCompressor struct{ algo pwr.CompressionAlgorithm }

func (c modelCompressor) Apply(w io.Writer, quality int32) (io.Writer, error) {
	if quality < 0 || quality > 11 {
		return nil, errors.Errorf("model codec: invalid quality %d", quality)
	}
	return &modelWriter{w: w, algo: c.algo}, nil
}

type modelWriter struct {
	w       io.Writer
	algo    pwr.CompressionAlgorithm
	started bool
	closed  bool
}

func (m *modelWriter) start() error {
	if m.started {
		return nil
	}
	m.started = true
	_, err := m.w.Write([]byte{0xc0 + byte(m.algo), ^(0xc0 + byte(m.algo))})
	return err
}

func (m *modelWriter) Write(p []byte) (int, error) {
	if m.closed {
		return 0, errors.New("model codec: write after close")
	}
	if err := m.start(); err != nil {
		return 0, err
	}
	key := codecKey(m.algo)
	buf := make([]byte, len(p))
	for i, b := range p {
		buf[i] = b ^ key
	}
	if _, err := m.w.Write(buf); err != nil {
		return 0, err
	}
	return len(p), nil
}

// Close writes the trailer (a compressed stream that is not closed is truncated).
func (m *modelWriter) Close() error {
	if m.closed {
		return nil
	}
	if err := m.start(); err != nil {
		return err
	}
	m.closed = true
	_, err := m.w.Write([]byte{codecTrailer})
	return err
}

type modelDecompressor struct{ algo pwr.CompressionAlgorithm }

func (d modelDecompressor) Apply(source savior.Source) (savior.Source, error) {
	return &modelSource{inner: source, algo: d.algo}, nil
}

// ModelCodecCheckpoint is the decompressor's own checkpoint data (registered with gob, like the real ones).
type ModelCodecCheckpoint struct {
	Inner   *savior.SourceCheckpoint
	Hold    byte
	HasHold bool
}

// modelSource decodes with one byte of look-ahead (the last byte of the stream is the trailer).
type modelSource struct {
	inner   savior.Source
	algo    pwr.CompressionAlgorithm
	ssc     savior.SourceSaveConsumer
	offset  int64
	hold    byte
	hasHold bool
	eof     bool
	ready   bool
}

func (s *modelSource) Features() savior.SourceFeatures { return s.inner.Features() }
func (s *modelSource) Progress() float64               { return s.inner.Progress() }
func (s *modelSource) SetSourceSaveConsumer(ssc savior.SourceSaveConsumer) {
	s.ssc = ssc
	s.inner.SetSourceSaveConsumer(&savior.CallbackSourceSaveConsumer{OnSave: func(ic *savior.SourceCheckpoint) error {
		// the inner source emits at the start of one of its reads: our state is consistent there
		if s.ssc == nil {
			return nil
		}
		return s.ssc.Save(&savior.SourceCheckpoint{Offset: s.offset, Data: &ModelCodecCheckpoint{Inner: ic, Hold: s.hold, HasHold: s.hasHold}})
	}})
}
func (s *modelSource) WantSave() { s.inner.WantSave() }

func (s *modelSource) Resume(c *savior.SourceCheckpoint) (int64, error) {
	s.eof = false
	if c == nil {
		if _, err := s.inner.Resume(nil); err != nil {
			return 0, errors.WithStack(err)
		}
		h0, err := s.inner.ReadByte()
		if err != nil {
			return 0, errors.New("model codec: missing header")
		}
		h1, err := s.inner.ReadByte()
		if err != nil || h0 != 0xc0+byte(s.algo) || h1 != ^h0 {
			return 0, errors.New("model codec: invalid header")
		}
		s.offset, s.hasHold, s.ready = 0, false, true
		return 0, nil
	}
	cc, ok := c.Data.(*ModelCodecCheckpoint)
	if !ok || cc == nil {
		return 0, errors.New("model codec: not one of our checkpoints")
	}
	if _, err := s.inner.Resume(cc.Inner); err != nil {
		return 0, errors.WithStack(err)
	}
	s.offset, s.hold, s.hasHold, s.ready = c.Offset, cc.Hold, cc.HasHold, true
	return s.offset, nil
}

func (s *modelSource) ReadByte() (byte, error) {
	if !s.ready {
		return 0, errors.WithStack(savior.ErrUninitializedSource)
	}
	if s.eof {
		return 0, io.EOF
	}
	for {
		b, err := s.inner.ReadByte()
		if err != nil {
			if err != io.EOF {
				return 0, err
			}
			if !s.hasHold || s.hold != codecTrailer {
				return 0, errors.New("model codec: unexpected end of stream (no trailer)")
			}
			s.eof = true
			return 0, io.EOF
		}
		if !s.hasHold {
			s.hold, s.hasHold = b, true
			continue
		}
		out := s.hold ^ codecKey(s.algo)
		s.hold = b
		s.offset++
		return out, nil
	}
}

func (s *modelSource) Read(p []byte) (int, error) {
	n := 0
	for n < len(p) {
		b, err := s.ReadByte()
		if err != nil {
			if n > 0 && err == io.EOF {
				return n, nil
			}
			return n, err
		}
		p[n] = b
		n++
	}
	return n, nil
}

var codecsRegistered bool

// Codec returns compression settings: 0 none, 1 "gzip" (model codec), 2 "brotli" (model codec).
// The model codecs are registered on first use.
func Codec(which int) *pwr.CompressionSettings {
	if which == 0 {
		return None()
	}
	if !codecsRegistered {
		codecsRegistered = true
		for _, a := range []pwr.CompressionAlgorithm{pwr.CompressionAlgorithm_GZIP, pwr.CompressionAlgorithm_BROTLI} {
			pwr.RegisterCompressor(a, modelCompressor{algo: a})
			pwr.RegisterDecompressor(a, modelDecompressor{algo: a})
		}
	}
	if which == 1 {
		return &pwr.CompressionSettings{Algorithm: pwr.CompressionAlgorithm_GZIP, Quality: 3}
	}
	return &pwr.CompressionSettings{Algorithm: pwr.CompressionAlgorithm_BROTLI, Quality: 1}
}

// CodecParam returns the settings selected by the instance parameter comp (absent = none): every patch and
// signature a harness produces through hlib.Diff / hlib.Optimize is then written with that (model) codec.
func CodecParam() *pwr.CompressionSettings {
	if rt.HasParam("comp") {
		return Codec(rt.Param("comp"))
	}
	return None()
}

func init() {
	gob.Register(&ModelCodecCheckpoint{})
}
