// Package hlib holds helpers shared by the harness packages: building trees,
// diffing, applying and comparing through wharf's public API only. It compiles
// natively as is (real os, real codecs) for replays.
package hlib

import (
	"bytes"
	"context"
	"io"
	"os"
	"path/filepath"
	"sort"

	"github.com/itchio/headway/state"
	"github.com/itchio/lake/pools/fspool"
	"github.com/itchio/lake/tlc"
	"github.com/itchio/savior/seeksource"
	"github.com/itchio/wharf/pwr"
	"github.com/itchio/wharf/pwr/bowl"
	"github.com/itchio/wharf/pwr/patcher"
	"github.com/itchio/wharf/wsync"
	"github.com/itchio/wharf/zzverif/rt"
)

type File struct {
	Path string
	Data []byte
}

type Link struct{ Path, Dest string }

// Build describes a directory tree.
type Build struct {
	Files []File
	Dirs  []string // explicit (possibly empty) directories
	Links []Link
}

func Must(err error, what string) {
	if err != nil {
		rt.Observe("must-failed", what, err)
		rt.Fail("setup failed: " + what)
		panic("setup failed: " + what + ": " + err.Error())
	}
}

// Write materialises the build under dir (created if needed).
func (b *Build) Write(dir string) {
	Must(os.MkdirAll(dir, 0o755), "mkdir "+dir)
	for _, d := range b.Dirs {
		Must(os.MkdirAll(filepath.Join(dir, d), 0o755), "mkdir")
	}
	for _, f := range b.Files {
		p := filepath.Join(dir, f.Path)
		Must(os.MkdirAll(filepath.Dir(p), 0o755), "mkdir parent")
		Must(os.WriteFile(p, f.Data, 0o644), "write file")
	}
	for _, l := range b.Links {
		p := filepath.Join(dir, l.Path)
		Must(os.MkdirAll(filepath.Dir(p), 0o755), "mkdir parent")
		Must(os.Symlink(l.Dest, p), "symlink")
	}
}

var Consumer = &state.Consumer{}

func Walk(dir string) *tlc.Container {
	c, err := tlc.WalkDir(dir, tlc.WalkOpts{})
	Must(err, "walk "+dir)
	return c
}

func Sign(dir string, c *tlc.Container) []wsync.BlockHash {
	h, err := pwr.ComputeSignature(context.Background(), c, fspool.New(c, dir), Consumer)
	Must(err, "sign")
	return h
}

type DiffResult struct {
	Patch, Sig      []byte
	Fresh, Reused   int64
	Source, Target  *tlc.Container
	TargetSignature []wsync.BlockHash
}

func None() *pwr.CompressionSettings {
	return &pwr.CompressionSettings{Algorithm: pwr.CompressionAlgorithm_NONE}
}

// Diff produces the patch (old -> new) and the signature of new.
// (compression: the instance parameter comp, default none - see CodecParam)
func Diff(oldDir, newDir string) *DiffResult { return DiffC(oldDir, newDir, CodecParam()) }

// DiffC is Diff with the given compression settings for both streams.
func DiffC(oldDir, newDir string, comp *pwr.CompressionSettings) *DiffResult {
	target := Walk(oldDir)
	source := Walk(newDir)
	tsig := Sign(oldDir, target)
	var patch, sig bytes.Buffer
	dctx := &pwr.DiffContext{
		Compression:     comp,
		Consumer:        Consumer,
		SourceContainer: source,
		Pool:            fspool.New(source, newDir),
		TargetContainer: target,
		TargetSignature: tsig,
	}
	Must(dctx.WritePatch(context.Background(), &patch, &sig), "WritePatch")
	return &DiffResult{Patch: patch.Bytes(), Sig: sig.Bytes(), Fresh: dctx.FreshBytes, Reused: dctx.ReusedBytes,
		Source: source, Target: target, TargetSignature: tsig}
}

// ApplyFresh applies patch to oldDir writing a fresh copy into outDir.
func ApplyFresh(patch []byte, oldDir, outDir string) error {
	p, err := patcher.New(seeksource.FromBytes(patch), Consumer)
	if err != nil {
		return err
	}
	targetPool := fspool.New(p.GetTargetContainer(), oldDir)
	b, err := bowl.NewFreshBowl(bowl.FreshBowlParams{
		SourceContainer: p.GetSourceContainer(),
		TargetContainer: p.GetTargetContainer(),
		TargetPool:      targetPool,
		OutputFolder:    outDir,
	})
	if err != nil {
		return err
	}
	if err := p.Resume(nil, targetPool, b); err != nil {
		return err
	}
	return b.Commit()
}

// ApplyInPlace applies patch onto dir through the overlay bowl (staging in stageDir).
func ApplyInPlace(patch []byte, dir, stageDir string) error {
	p, err := patcher.New(seeksource.FromBytes(patch), Consumer)
	if err != nil {
		return err
	}
	targetPool := fspool.New(p.GetTargetContainer(), dir)
	b, err := bowl.NewOverlayBowl(bowl.OverlayBowlParams{
		SourceContainer: p.GetSourceContainer(),
		TargetContainer: p.GetTargetContainer(),
		OutputFolder:    dir,
		StageFolder:     stageDir,
	})
	if err != nil {
		return err
	}
	if err := p.Resume(nil, targetPool, b); err != nil {
		return err
	}
	return b.Commit()
}

// Entry is one entry of a tree snapshot.
type Entry struct {
	Path string
	Kind byte // 'f', 'd', 'l'
	Data []byte
	Dest string
}

// Snapshot reads the whole tree under dir (sorted by path).
func Snapshot(dir string) []Entry {
	var out []Entry
	err := filepath.Walk(dir, func(p string, info os.FileInfo, err error) error {
		if err != nil {
			return err
		}
		rel, _ := filepath.Rel(dir, p)
		if rel == "." {
			return nil
		}
		rel = filepath.ToSlash(rel)
		switch {
		case info.Mode()&os.ModeSymlink != 0:
			d, err := os.Readlink(p)
			if err != nil {
				return err
			}
			out = append(out, Entry{Path: rel, Kind: 'l', Dest: d})
		case info.IsDir():
			out = append(out, Entry{Path: rel, Kind: 'd'})
		default:
			b, err := os.ReadFile(p)
			if err != nil {
				return err
			}
			out = append(out, Entry{Path: rel, Kind: 'f', Data: b})
		}
		return nil
	})
	Must(err, "snapshot "+dir)
	sort.Slice(out, func(i, j int) bool { return out[i].Path < out[j].Path })
	return out
}

// Entries lists what a build consists of (implied parent directories included), sorted.
func (b *Build) Entries() []Entry {
	dirs := map[string]bool{}
	addParents := func(p string) {
		for d := filepath.Dir(p); d != "." && d != "/"; d = filepath.Dir(d) {
			dirs[filepath.ToSlash(d)] = true
		}
	}
	var out []Entry
	for _, f := range b.Files {
		out = append(out, Entry{Path: f.Path, Kind: 'f', Data: f.Data})
		addParents(f.Path)
	}
	for _, l := range b.Links {
		out = append(out, Entry{Path: l.Path, Kind: 'l', Dest: l.Dest})
		addParents(l.Path)
	}
	for _, d := range b.Dirs {
		dirs[d] = true
		addParents(d)
	}
	var dl []string
	for d := range dirs {
		dl = append(dl, d)
	}
	sort.Strings(dl)
	for _, d := range dl {
		out = append(out, Entry{Path: d, Kind: 'd'})
	}
	sort.Slice(out, func(i, j int) bool { return out[i].Path < out[j].Path })
	return out
}

// AssertSame asserts that two entry lists describe the same tree; label prefixes the assertion names.
func AssertSame(got, want []Entry, label string) {
	rt.Assert(len(got) == len(want), label+": same number of entries")
	if len(got) != len(want) {
		rt.Observe(label+"-got", paths(got))
		rt.Observe(label+"-want", paths(want))
		return
	}
	for i := range got {
		g, w := got[i], want[i]
		rt.Assert(g.Path == w.Path && g.Kind == w.Kind, label+": same entry path and kind")
		if g.Path != w.Path || g.Kind != w.Kind {
			continue
		}
		switch g.Kind {
		case 'f':
			rt.Assert(rt.BytesEqual(g.Data, w.Data), label+": file content equal")
		case 'l':
			rt.Assert(g.Dest == w.Dest, label+": symlink destination equal")
		}
	}
}

func paths(es []Entry) string {
	s := ""
	for _, e := range es {
		s += string(e.Kind) + ":" + e.Path + " "
	}
	return s
}

// Distinct assumes all bytes of the given slices pairwise distinct (generic position).
func Distinct(bs ...[]byte) {
	var all []byte
	for _, b := range bs {
		all = append(all, b...)
	}
	for i := range all {
		for j := i + 1; j < len(all); j++ {
			rt.Assume(all[i] != all[j])
		}
	}
}

var _ = io.EOF

func rtSetParam(name string, v int) { rt.SetParam(name, v) }

func Min(a, b int) int {
	if a < b {
		return a
	}
	return b
}

// DistinctSyms assumes that bytes at different positions hold different values,
// except where two positions hold the very same symbolic byte (copies).
func DistinctSyms(bs ...[]byte) {
	var all []byte
	for _, b := range bs {
		all = append(all, b...)
	}
	for i := range all {
		for j := i + 1; j < len(all); j++ {
			if rt.SameSymbol(all[i], all[j]) {
				continue
			}
			rt.Assume(all[i] != all[j])
		}
	}
}

func osMkdirAll(p string) error { return os.MkdirAll(p, 0o755) }
