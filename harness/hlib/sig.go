package hlib

import (
	"context"
	"io"

	"github.com/itchio/lake/tlc"
	"github.com/itchio/savior/seeksource"
	"github.com/itchio/wharf/pwr"
	"github.com/itchio/wharf/wire"
)

// B is the (possibly scaled) block size.
func B() int { return int(pwr.BlockSize) }

func SetCopyBuf() {
	n := B() / 2
	if n < 1 {
		n = 1
	}
	if B() >= 32*1024 {
		n = 32 * 1024
	}
	rtSetParam("copybuf", n)
}

// SigOf signs the tree under dir.
func SigOf(dir string) *pwr.SignatureInfo {
	c := Walk(dir)
	return &pwr.SignatureInfo{Container: c, Hashes: Sign(dir, c)}
}

// ReadWounds parses a wounds file written by pwr.WoundsWriter.
func ReadWounds(data []byte) (*tlc.Container, []*pwr.Wound) {
	src := seeksource.FromBytes(data)
	_, err := src.Resume(nil)
	Must(err, "resume wounds source")
	rc := wire.NewReadContext(src)
	Must(rc.ExpectMagic(pwr.WoundsMagic), "wounds magic")
	Must(rc.ReadMessage(&pwr.WoundsHeader{}), "wounds header")
	c := &tlc.Container{}
	Must(rc.ReadMessage(c), "wounds container")
	var out []*pwr.Wound
	for {
		w := &pwr.Wound{}
		err := rc.ReadMessage(w)
		if err != nil {
			if Cause(err) == io.EOF {
				break
			}
			Must(err, "read wound")
		}
		out = append(out, w)
	}
	return c, out
}

type causer interface{ Cause() error }

func Cause(err error) error {
	for err != nil {
		c, ok := err.(causer)
		if !ok {
			break
		}
		err = c.Cause()
	}
	return err
}

var _ = context.Background

// SigBytes returns the signature stream (as written next to a patch) of the build under dir.
func SigBytes(dir string) []byte {
	empty := dir + ".empty-target"
	Must(osMkdirAll(empty), "mkdir")
	d := Diff(empty, dir)
	return d.Sig
}
