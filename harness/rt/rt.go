// Package rt is the harness-side runtime of the gosym engine.
//
// Inside the engine every function below is intercepted by name (the bodies
// are never interpreted). Compiled natively, the bodies replay a recorded
// counterexample: inputs, choices and parameters come from the JSON file named
// by $VERIF_REPLAY, in the order in which the engine created them.
package rt

import (
	"bytes"
	"encoding/gob"
	"encoding/json"
	"fmt"
	"os"
	"runtime"
	"sync"
	"time"
)

type inputVal struct {
	Label string `json:"label"`
	Value uint64 `json:"value"`
}

type choiceVal struct {
	Kind  string `json:"kind"`
	Label string `json:"label"`
	Value uint64 `json:"value"`
}

type replayFile struct {
	Harness string         `json:"harness"`
	Params  map[string]int `json:"params"`
	Inputs  []inputVal     `json:"inputs"`
	Choices []choiceVal    `json:"choices"`
}

var (
	mu       sync.Mutex
	loaded   bool
	replay   replayFile
	inPos    int
	chPos    int
	Failures []string
	Observed []string
	Reached  = map[string]int{}
	attached = map[any]any{}
)

// Load reads the replay file (idempotent). Reset rewinds the cursors.
func Load() *replayFile {
	mu.Lock()
	defer mu.Unlock()
	if !loaded {
		loaded = true
		if p := os.Getenv("VERIF_REPLAY"); p != "" {
			b, err := os.ReadFile(p)
			if err != nil {
				panic(err)
			}
			if err := json.Unmarshal(b, &replay); err != nil {
				panic(err)
			}
		}
	}
	return &replay
}

func HarnessName() string { return Load().Harness }

func Reset() {
	Load()
	mu.Lock()
	inPos, chPos = 0, 0
	Failures = nil
	Observed = nil
	Reached = map[string]int{}
	attached = map[any]any{}
	mu.Unlock()
}

func nextInput(label string) uint64 {
	Load()
	mu.Lock()
	defer mu.Unlock()
	if inPos >= len(replay.Inputs) {
		inPos++
		return 0
	}
	v := replay.Inputs[inPos]
	inPos++
	return v.Value
}

func nextChoice(kind string) uint64 {
	Load()
	mu.Lock()
	defer mu.Unlock()
	for chPos < len(replay.Choices) {
		c := replay.Choices[chPos]
		chPos++
		if c.Kind == kind {
			return c.Value
		}
	}
	return 0
}

func Byte(label string) byte { return byte(nextInput(label)) }

func Bytes(label string, n int) []byte {
	b := make([]byte, n)
	for i := range b {
		b[i] = byte(nextInput(label))
	}
	return b
}

func Int64(label string) int64   { return int64(nextInput(label)) }
func Int32(label string) int32   { return int32(nextInput(label)) }
func Uint32(label string) uint32 { return uint32(nextInput(label)) }
func Bool(label string) bool     { return nextInput(label) != 0 }

// Int is a symbolic int constrained to [lo, hi].
func Int(label string, lo, hi int) int {
	v := int(int64(nextInput(label)))
	if v < lo {
		v = lo
	}
	if v > hi {
		v = hi
	}
	return v
}

// IntRange is a choice in [lo, hi] explored by case split (no solver).
func IntRange(label string, lo, hi int) int {
	c := int(nextChoice("choice"))
	if c < 0 || c > hi-lo {
		c = 0
	}
	return lo + c
}

// Choice is a choice in [0, n) explored by case split.
func Choice(label string, n int) int {
	c := int(nextChoice("choice"))
	if c < 0 || c >= n {
		c = 0
	}
	return c
}

func Param(name string) int {
	v, ok := Load().Params[name]
	if !ok {
		panic("missing parameter " + name)
	}
	return v
}

func HasParam(name string) bool {
	_, ok := Load().Params[name]
	return ok
}

func Concretize(x int) int       { return x }
func ConcretizeByte(x byte) byte { return x }

type assumeFailed struct{}

// Assume: a replayed counterexample satisfies every assumption; if it does not
// the replay is void (reported as such by the test wrapper).
func Assume(c bool) {
	if !c {
		panic(assumeFailed{})
	}
}

func IsAssumeFailure(e any) bool { _, ok := e.(assumeFailed); return ok }

func Assert(c bool, label string) {
	mu.Lock()
	Observed = append(Observed, fmt.Sprintf("assert:%s=%v", label, c))
	if !c {
		Failures = append(Failures, label)
	}
	mu.Unlock()
}

func Fail(label string) { Assert(false, label) }

func Reach(label string) {
	mu.Lock()
	Reached[label]++
	Observed = append(Observed, "reach:"+label)
	mu.Unlock()
}

func Tag(key, val string) {}

func Observe(label string, v ...any) {
	mu.Lock()
	Observed = append(Observed, "obs:"+label+"="+fmtArgs(v))
	mu.Unlock()
}

func fmtArgs(v []any) string {
	var sb bytes.Buffer
	for i, x := range v {
		if i > 0 {
			sb.WriteByte(' ')
		}
		switch x := x.(type) {
		case error:
			sb.WriteString(x.Error())
		case fmt.Stringer:
			sb.WriteString(x.String())
		case []byte:
			fmt.Fprint(&sb, x)
		default:
			fmt.Fprintf(&sb, "%v", x)
		}
	}
	return sb.String()
}

func InEngine() bool { return false }
func Yield()         {}

func Attach(key any, v any) { mu.Lock(); attached[key] = v; mu.Unlock() }
func Attached(key any) any  { mu.Lock(); defer mu.Unlock(); return attached[key] }

func BytesEqual(a, b []byte) bool { return bytes.Equal(a, b) }

// MapOrder(1) makes the engine explore every iteration order of maps with more than one entry.
func MapOrder(mode int) {}

func IsSymbolic(v any) bool { return false }

func NonTerminationIsViolation(on bool) {}
func Steps() int                        { return 0 }
func SetStepBudget(n int)               {}

func Ite(c bool, a, b int) int {
	if c {
		return a
	}
	return b
}
func And(a, b bool) bool     { return a && b }
func Or(a, b bool) bool      { return a || b }
func Not(a bool) bool        { return !a }
func Implies(a, b bool) bool { return !a || b }

// CloneViaGob copies src into dst through a gob encode/decode round trip
// (the engine models it as a deep copy of exported fields).
func CloneViaGob(dst, src any) error {
	var buf bytes.Buffer
	if err := gob.NewEncoder(&buf).Encode(src); err != nil {
		return err
	}
	return gob.NewDecoder(&buf).Decode(dst)
}

// Model calls a function of the engine's environment model (no-op natively).
func Model(name string, args ...int) int { return 0 }

// TempDir returns a fresh empty directory ("/vN" on the in-memory file system in the engine).
func TempDir() string {
	d, err := os.MkdirTemp("", "gosym-replay-fs-")
	if err != nil {
		panic(err)
	}
	tempDirs = append(tempDirs, d)
	return d
}

var tempDirs []string

// Cleanup removes the directories handed out by TempDir (native replays only).
func Cleanup() {
	for _, d := range tempDirs {
		os.RemoveAll(d)
	}
	tempDirs = nil
}

// SetParam sets an instance parameter from inside the harness (e.g. the copy buffer size of the FS model).
func SetParam(name string, v int) {
	Load()
	mu.Lock()
	if replay.Params == nil {
		replay.Params = map[string]int{}
	}
	replay.Params[name] = v
	mu.Unlock()
}

// SetProcs sets the number of CPUs the code under test sees from here on: in the engine the value returned
// by runtime.GOMAXPROCS(0) and runtime.NumCPU(); natively runtime.GOMAXPROCS(n) (NumCPU cannot be changed).
func SetProcs(n int) {
	runtime.GOMAXPROCS(n)
}

// SameSymbol reports whether two bytes are the very same symbolic value (engine) /
// equal (natively).
func SameSymbol(a, b byte) bool { return a == b }

// AtVisibleOp arranges for fn to run right before the n-th visible operation
// (channel / sync / context / file-system call of any goroutine) from now; n <= 0
// runs it at once. Natively the instant is approximated by a timer.
func AtVisibleOp(n int, fn func()) {
	if n <= 0 {
		fn()
		return
	}
	go func() {
		time.Sleep(time.Duration(n) * 15 * time.Microsecond)
		fn()
	}()
}

func VisibleOps() int { return 0 }

// SchedExplore(false) makes the engine follow its canonical schedule (no scheduling
// decisions) until SchedExplore(true); natively a no-op.
func SchedExplore(on bool) {}

// Debug prints a line in the engine when GOSYM_DEBUG is set (no-op natively).
func Debug(msg string) {}
