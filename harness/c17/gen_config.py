#!/usr/bin/env python3
import json
exec(open('../c07/gen_config.py').read().split('Q=["quick"')[0])  # reuse sc()
scale=sc(2,5)
Q=["quick","thorough"];T=["thorough"]
H=[{"name":"H_witness","tiers":Q,"expect":"violation","bounds":"vacuity witness"}]
H.append({"name":"H_whitelist","tiers":Q,"scale":"b2","bounds":"B=2, alphabet {0,1}: new build of 4 files (whole-file copy, patched, brand-new, empty); all 16 whitelist subsets; plain and optimized (ForceMapAll) patch; old sizes (2,3); optimized patch for subsets {}, {1}, {0,2}, {1,3}, all",
  "param_sets":[{"ka":2,"kb":3,"mask":m,"opt":0} for m in range(16)]+[{"ka":2,"kb":3,"mask":m,"opt":1} for m in (0,2,5,10,15)]})
H.append({"name":"H_whitelist","tiers":Q,"scale":"b2","bounds":"the same subsets written as an explicit true/false verdict per index (map entries with value false): 8 subsets plain, 2 optimized",
  "param_sets":[{"ka":2,"kb":3,"mask":m,"opt":0,"falses":1} for m in (0,1,2,5,6,9,10,15)]+[{"ka":2,"kb":3,"mask":m,"opt":1,"falses":1} for m in (2,5)]})
H.append({"name":"H_whitelist","tiers":Q,"scale":"b2","bounds":"whitelisted application interrupted at checkpoint 0..3 and resumed in a brand-new patcher with the same whitelist: 5 subsets plain, 2 optimized",
  "param_sets":[{"ka":2,"kb":3,"mask":m,"opt":0,"stopat":k} for m in (2,5,6,10,15) for k in (0,1,2,3)]+[{"ka":2,"kb":3,"mask":m,"opt":1,"stopat":k} for m in (2,5) for k in (0,1)]})
H.append({"name":"H_whitelist","tiers":Q,"scale":"b2","bounds":"patches written through the model codecs: 4 subsets plain, 2 optimized",
  "param_sets":[{"ka":2,"kb":3,"mask":m,"opt":0,"comp":c} for m in (2,5,10,15) for c in (1,2)]+[{"ka":2,"kb":3,"mask":m,"opt":1,"comp":1} for m in (2,5)]})
H.append({"name":"H_skip","tiers":Q,"bounds":"hand-built optimized patch over an old container of 2051 files: skipped bsdiff series with symbolic TargetIndex in [0,2050] and symbolic 64-bit Seek; next file whitelisted","param_sets":[{}]})
H.append({"name":"H_whitelist","tiers":T,"scale":"b2","bounds":"old sizes in {(0,1),(2,2),(5,3),(4,5)}; all subsets; plain, and optimized for the two smaller size pairs","max_seconds":900,
  "param_sets":[{"ka":a,"kb":b,"mask":m,"opt":o} for (a,b) in ((0,1),(2,2),(5,3),(4,5)) for m in range(16) for o in (0,1) if not (o==1 and a>=4)]})
json.dump({"property":"C17","package":"c17","scale":scale,"harnesses":H,
 "stubs":["os -> memfs, md5/protobuf (tag-faithful: cross-type decoding of BsdiffHeader/Control as SyncOp is real) models","recording bowl / recording pool written in the harness"],
 "outside":["compression settings other than NONE","new builds other than the 4-file shape"]},open("config.json","w"),indent=1)
for h in H: print(h["name"],h["tiers"],h.get("scale"),len(h.get("param_sets",[1])))
