// Package c17: partial application by whitelist produces exactly the selected files.
package c17

import (
	"bytes"
	"io"

	"github.com/itchio/lake"
	"github.com/itchio/lake/pools/fspool"
	"github.com/itchio/lake/tlc"
	"github.com/itchio/savior/seeksource"
	"github.com/itchio/wharf/bsdiff"
	"github.com/itchio/wharf/pwr"
	"github.com/itchio/wharf/pwr/bowl"
	"github.com/itchio/wharf/pwr/patcher"
	"github.com/itchio/wharf/wire"
	"github.com/itchio/wharf/zzverif/hlib"
	"github.com/itchio/wharf/zzverif/rt"
)

func H_witness() {
	a := rt.Byte("a")
	rt.Assert(a != 9, "witness")
	rt.Reach("end")
}

func clone(b []byte) []byte { return append([]byte{}, b...) }

// recBowl records which new-build files the patcher asks the bowl about.
type recBowl struct {
	bowl.Bowl
	writers, transposed []int64
}

func (r *recBowl) GetWriter(i int64) (bowl.EntryWriter, error) {
	r.writers = append(r.writers, i)
	return r.Bowl.GetWriter(i)
}
func (r *recBowl) Transpose(t bowl.Transposition) error {
	r.transposed = append(r.transposed, t.SourceIndex)
	return r.Bowl.Transpose(t)
}

// recPool records which old-build files are read.
type recPool struct {
	lake.Pool
	reads []int64
}

func (r *recPool) GetReader(i int64) (io.Reader, error) {
	r.reads = append(r.reads, i)
	return r.Pool.GetReader(i)
}
func (r *recPool) GetReadSeeker(i int64) (io.ReadSeeker, error) {
	r.reads = append(r.reads, i)
	return r.Pool.GetReadSeeker(i)
}

// stopper always wants to save, keeps a serialized copy of checkpoint number `at` and stops there.
type stopper struct {
	at, n int
	kept  *patcher.Checkpoint
}

func (s *stopper) ShouldSave() bool { return true }
func (s *stopper) Save(c *patcher.Checkpoint) (patcher.AfterSaveAction, error) {
	n := s.n
	s.n++
	if n == s.at {
		s.kept = &patcher.Checkpoint{}
		hlib.Must(rt.CloneViaGob(s.kept, c), "checkpoint survives gob")
		return patcher.AfterSaveStop, nil
	}
	return patcher.AfterSaveContinue, nil
}

func restrict(b []byte, alpha int) {
	for _, c := range b {
		rt.Assume(int(c) < alpha)
	}
}

// H_whitelist. Old build: files "keep" (ka bytes), "edit" (kb bytes). New build (4 files,
// sorted by path so indices are a-copy=0, b-edit=1, c-new=2, d-empty=3): whole-file copy of keep,
// patched edit, brand-new, empty. Params: mask (whitelist subset), opt (1 = optimized patch).
func H_whitelist() {
	hlib.SetCopyBuf()
	alpha := 2
	K, E := rt.Bytes("keep", rt.Param("ka")), rt.Bytes("edit", rt.Param("kb"))
	restrict(K, alpha)
	restrict(E, alpha)
	old := &hlib.Build{Files: []hlib.File{{Path: "a-copy", Data: K}, {Path: "b-edit", Data: E}}}
	E2 := clone(E)
	if len(E2) > 0 {
		e := rt.Bytes("e", 1)
		restrict(e, alpha)
		E2[len(E2)-1] = e[0]
	}
	N := rt.Bytes("fresh", 3)
	restrict(N, alpha)
	neu := &hlib.Build{Files: []hlib.File{{Path: "a-copy", Data: clone(K)}, {Path: "b-edit", Data: E2}, {Path: "c-new", Data: N}, {Path: "d-empty", Data: []byte{}}}}
	root := rt.TempDir()
	old.Write(root + "/old")
	neu.Write(root + "/new")
	d := hlib.Diff(root+"/old", root+"/new")
	patch := d.Patch
	if rt.Param("opt") == 1 {
		opt, _, err := hlib.Optimize(patch, root+"/old", root+"/new", hlib.RediffOpts{ForceMapAll: true})
		hlib.Must(err, "optimize")
		patch = opt
	}
	mask := rt.Param("mask")
	wl := map[int64]bool{}
	count := 0
	for i := 0; i < 4; i++ {
		if mask&(1<<i) != 0 {
			wl[int64(i)] = true
			count++
		} else if rt.HasParam("falses") {
			// the same subset, written as an explicit verdict per index
			wl[int64(i)] = false
		}
	}
	p, err := patcher.New(seeksource.FromBytes(patch), hlib.Consumer)
	hlib.Must(err, "patcher.New")
	p.SetSourceIndexWhitelist(wl)
	pool := &recPool{Pool: fspool.New(p.GetTargetContainer(), root+"/old")}
	fb, err := bowl.NewFreshBowl(bowl.FreshBowlParams{SourceContainer: p.GetSourceContainer(), TargetContainer: p.GetTargetContainer(), TargetPool: pool, OutputFolder: root + "/out"})
	hlib.Must(err, "NewFreshBowl")
	rb := &recBowl{Bowl: fb}
	if rt.HasParam("stopat") {
		// interrupted at its stopat-th checkpoint and resumed in a brand-new patcher with the same whitelist:
		// still only whitelisted files, and all of them
		sv := &stopper{at: rt.Param("stopat")}
		p.SetSaveConsumer(sv)
		ferr := p.Resume(nil, pool, rb)
		if sv.kept != nil {
			rt.Reach("interrupted")
			p2, err := patcher.New(seeksource.FromBytes(patch), hlib.Consumer)
			hlib.Must(err, "patcher.New (resume)")
			p2.SetSourceIndexWhitelist(wl)
			fb2, err := bowl.NewFreshBowl(bowl.FreshBowlParams{SourceContainer: p2.GetSourceContainer(), TargetContainer: p2.GetTargetContainer(), TargetPool: pool, OutputFolder: root + "/out"})
			hlib.Must(err, "NewFreshBowl (resume)")
			rb.Bowl = fb2
			rt.Assert(p2.Resume(sv.kept, pool, rb) == nil, "resumed whitelisted application finishes without error")
		} else {
			rt.Assert(ferr == nil, "whitelisted application finishes without error")
		}
		rt.Assert(rb.Commit() == nil, "commit without error")
	} else {
		rt.Assert(p.Resume(nil, pool, rb) == nil, "whitelisted application finishes without error")
		rt.Assert(rb.Commit() == nil, "commit without error")
		rt.Assert(p.GetTouchedFiles() == int64(count), "touched files == size of the whitelist")
	}
	for _, i := range rb.writers {
		rt.Assert(wl[i], "the bowl is asked to write only whitelisted files")
	}
	for _, i := range rb.transposed {
		rt.Assert(wl[i], "the bowl is asked to copy/move only whitelisted files")
	}
	// old-build data may only be read for whitelisted files: collect what their series reference
	pp := hlib.ParsePatch(patch)
	allowed := map[int64]bool{}
	for _, fs := range pp.Files {
		if !wl[fs.Header.FileIndex] {
			continue
		}
		if fs.Bsdiff != nil {
			allowed[fs.Bsdiff.TargetIndex] = true
		}
		for _, op := range fs.Ops {
			if op.Type == pwr.SyncOp_BLOCK_RANGE {
				allowed[op.FileIndex] = true
			}
		}
	}
	for _, i := range pool.reads {
		rt.Assert(allowed[i], "old-build data is read only for whitelisted files")
	}
	// each whitelisted file equals what full application produces (= the new build's file)
	got := hlib.Snapshot(root + "/out")
	for i, f := range neu.Files {
		var e *hlib.Entry
		for j := range got {
			if got[j].Path == f.Path && got[j].Kind == 'f' {
				e = &got[j]
			}
		}
		if wl[int64(i)] {
			rt.Assert(e != nil, "whitelisted file is present")
			if e != nil {
				rt.Assert(rt.BytesEqual(e.Data, f.Data), "whitelisted file equals the full application's file")
			}
		}
	}
	rt.Reach("end")
}

// H_skip: skipping must stay in sync for every field value. A hand-built optimized
// patch over an old container of 2051 empty files; the first new file carries a
// bsdiff series with a symbolic TargetIndex in [0, 2050] and symbolic control fields
// and is NOT whitelisted; the second new file is whitelisted and must come out right.
func H_skip() {
	target := &tlc.Container{}
	for i := 0; i < 2051; i++ {
		target.Files = append(target.Files, &tlc.File{Path: "t" + itoa(i), Mode: 0o644})
	}
	payload := rt.Bytes("payload", 2)
	source := &tlc.Container{Size: 2, Files: []*tlc.File{{Path: "skipped", Mode: 0o644, Size: 0}, {Path: "wanted", Mode: 0o644, Size: 2, Offset: 0}}}
	var buf bytes.Buffer
	wc := wire.NewWriteContext(&buf)
	hlib.Must(wc.WriteMagic(pwr.PatchMagic), "magic")
	hlib.Must(wc.WriteMessage(&pwr.PatchHeader{Compression: hlib.None()}), "header")
	hlib.Must(wc.WriteMessage(target), "target container")
	hlib.Must(wc.WriteMessage(source), "source container")
	ti := rt.Int("targetIndex", 0, 2050)
	hlib.Must(wc.WriteMessage(&pwr.SyncHeader{Type: pwr.SyncHeader_BSDIFF, FileIndex: 0}), "sync header")
	hlib.Must(wc.WriteMessage(&pwr.BsdiffHeader{TargetIndex: int64(ti)}), "bsdiff header")
	hlib.Must(wc.WriteMessage(&bsdiff.Control{Seek: rt.Int64("seek")}), "control")
	hlib.Must(wc.WriteMessage(&bsdiff.Control{Eof: true}), "control eof")
	hlib.Must(wc.WriteMessage(&pwr.SyncOp{Type: pwr.SyncOp_HEY_YOU_DID_IT}), "end marker")
	hlib.Must(wc.WriteMessage(&pwr.SyncHeader{Type: pwr.SyncHeader_RSYNC, FileIndex: 1}), "sync header 2")
	hlib.Must(wc.WriteMessage(&pwr.SyncOp{Type: pwr.SyncOp_DATA, Data: payload}), "data")
	hlib.Must(wc.WriteMessage(&pwr.SyncOp{Type: pwr.SyncOp_HEY_YOU_DID_IT}), "end marker 2")

	root := rt.TempDir()
	p, err := patcher.New(seeksource.FromBytes(buf.Bytes()), hlib.Consumer)
	hlib.Must(err, "patcher.New")
	p.SetSourceIndexWhitelist(map[int64]bool{1: true})
	pool := fspool.New(p.GetTargetContainer(), root+"/old")
	fb, err := bowl.NewFreshBowl(bowl.FreshBowlParams{SourceContainer: p.GetSourceContainer(), TargetContainer: p.GetTargetContainer(), TargetPool: pool, OutputFolder: root + "/out"})
	hlib.Must(err, "NewFreshBowl")
	rt.Assert(p.Resume(nil, pool, fb) == nil, "skipping a bsdiff series keeps the reader in sync for every header value")
	rt.Assert(fb.Commit() == nil, "commit")
	rt.Assert(p.GetTouchedFiles() == 1, "one file touched")
	rt.Reach("end")
}

func itoa(n int) string {
	if n == 0 {
		return "0"
	}
	s := ""
	for n > 0 {
		s = string(rune('0'+n%10)) + s
		n /= 10
	}
	return s
}
