package model

// memfs: an in-memory file system with Linux semantics for exactly the os /
// ioutil / *os.File / filepath.Walk calls reached from wharf and its helper
// libraries. File contents may hold symbolic bytes. The engine's replace table
// maps the real functions onto the functions of this file.

import (
	"io"
	"io/fs"
	"os"
	"path/filepath"
	"sort"
	"strings"
	"syscall"
	"time"

	"github.com/itchio/wharf/zzverif/rt"
)

const (
	kFile = iota
	kDir
	kSymlink
)

type node struct {
	kind   int
	data   []byte
	names  []string
	kids   []*node
	target string
	mode   os.FileMode
	name   string
}

var fsRoot = &node{kind: kDir, mode: os.ModeDir | 0o755, name: "/"}

// Mutations counts every state-changing operation (the crash model and the
// write monitor of the harnesses use it).
var Mutations int
var mutationLog []string
var frozen bool
var crashAfter = -1
var tempCounter int

type CrashSignal struct{}

func (n *node) lookup(name string) *node {
	for i, x := range n.names {
		if x == name {
			return n.kids[i]
		}
	}
	return nil
}

func (n *node) add(name string, k *node) {
	k.name = name
	n.names = append(n.names, name)
	n.kids = append(n.kids, k)
}

func (n *node) remove(name string) {
	for i, x := range n.names {
		if x == name {
			n.names = append(n.names[:i:i], n.names[i+1:]...)
			n.kids = append(n.kids[:i:i], n.kids[i+1:]...)
			return
		}
	}
}

// mutate is called before every state change; it returns false when the
// simulated machine has crashed (the change must then be dropped).
func mutate(what, path string) bool {
	if frozen {
		return false
	}
	if crashAfter == 0 {
		frozen = true
		crashAfter = -1
		panic(CrashSignal{})
	}
	if crashAfter > 0 {
		crashAfter--
	}
	Mutations++
	rt.Debug(what + " " + path)
	return true
}

func pathErr(op, path string, errno syscall.Errno) error {
	return &os.PathError{Op: op, Path: path, Err: errno}
}

func splitPath(p string) []string {
	p = filepath.Clean(p)
	if p == "/" || p == "." || p == "" {
		return nil
	}
	p = strings.TrimPrefix(p, "/")
	return strings.Split(p, "/")
}

// resolve walks to the node named by path. If followLast is false a final
// symlink is returned as is. It returns the parent directory and the final
// component as well (node may be nil with errno ENOENT when only the last
// component is missing; parent is then valid).
func resolve(path string, followLast bool, depth int) (parent *node, name string, n *node, errno syscall.Errno) {
	if depth > 8 {
		return nil, "", nil, syscall.ELOOP
	}
	parts := splitPath(path)
	cur := fsRoot
	if len(parts) == 0 {
		return nil, "/", fsRoot, 0
	}
	for i, part := range parts {
		if cur.kind != kDir {
			return nil, "", nil, syscall.ENOTDIR
		}
		child := cur.lookup(part)
		last := i == len(parts)-1
		if child == nil {
			if last {
				return cur, part, nil, syscall.ENOENT
			}
			return nil, "", nil, syscall.ENOENT
		}
		if child.kind == kSymlink && (!last || followLast) {
			// resolve the link relative to the directory that holds it
			var tgt string
			if strings.HasPrefix(child.target, "/") {
				tgt = child.target
			} else {
				tgt = "/" + strings.Join(parts[:i], "/") + "/" + child.target
			}
			rest := strings.Join(parts[i+1:], "/")
			if rest != "" {
				tgt = tgt + "/" + rest
			}
			return resolve(tgt, followLast, depth+1)
		}
		if last {
			return cur, part, child, 0
		}
		cur = child
	}
	return nil, "", nil, syscall.ENOENT
}

// ---- FileInfo -------------------------------------------------------------------

type fileInfo struct {
	name string
	size int64
	mode os.FileMode
}

func (fi *fileInfo) Name() string       { return fi.name }
func (fi *fileInfo) Size() int64        { return fi.size }
func (fi *fileInfo) Mode() os.FileMode  { return fi.mode }
func (fi *fileInfo) ModTime() time.Time { return time.Time{} }
func (fi *fileInfo) IsDir() bool        { return fi.mode&os.ModeDir != 0 }
func (fi *fileInfo) Sys() any           { return nil }

func (fi *fileInfo) Type() fs.FileMode          { return fi.mode.Type() }
func (fi *fileInfo) Info() (fs.FileInfo, error) { return fi, nil }

func infoOf(n *node, name string) *fileInfo {
	fi := &fileInfo{name: name, mode: n.mode}
	switch n.kind {
	case kFile:
		fi.size = int64(len(n.data))
	case kDir:
		fi.mode |= os.ModeDir
		fi.size = 4096
	case kSymlink:
		fi.mode = os.ModeSymlink | 0o777
		fi.size = int64(len(n.target))
	}
	return fi
}

func OsLstat(name string) (os.FileInfo, error) {
	rt.Yield()
	_, base, n, errno := resolve(name, false, 0)
	if n == nil {
		return nil, pathErr("lstat", name, errno)
	}
	return infoOf(n, base), nil
}

func OsStat(name string) (os.FileInfo, error) {
	rt.Yield()
	_, base, n, errno := resolve(name, true, 0)
	if n == nil {
		return nil, pathErr("stat", name, errno)
	}
	if base == "/" {
		base = "/"
	}
	return infoOf(n, filepath.Base(filepath.Clean(name))), nil
}

func OsReadlink(name string) (string, error) {
	rt.Yield()
	_, _, n, errno := resolve(name, false, 0)
	if n == nil {
		return "", pathErr("readlink", name, errno)
	}
	if n.kind != kSymlink {
		return "", pathErr("readlink", name, syscall.EINVAL)
	}
	return n.target, nil
}

// ---- directories ------------------------------------------------------------------

func OsMkdir(name string, perm os.FileMode) error {
	rt.Yield() // every file-system call is one atomic step; the scheduling point is before it
	parent, base, n, errno := resolve(name, true, 0)
	if n != nil {
		return pathErr("mkdir", name, syscall.EEXIST)
	}
	if parent == nil {
		// a dangling symlink as last component also counts as existing
		return pathErr("mkdir", name, errno)
	}
	if _, _, l, _ := resolve(name, false, 0); l != nil {
		return pathErr("mkdir", name, syscall.EEXIST)
	}
	if !mutate("mkdir", name) {
		return nil
	}
	parent.add(base, &node{kind: kDir, mode: os.ModeDir | perm.Perm()})
	return nil
}

func OsMkdirAll(path string, perm os.FileMode) error {
	_, _, n, _ := resolve(path, true, 0)
	if n != nil {
		if n.kind == kDir {
			return nil
		}
		return pathErr("mkdir", path, syscall.ENOTDIR)
	}
	parts := splitPath(path)
	cur := ""
	for _, p := range parts {
		cur = cur + "/" + p
		_, _, n, _ := resolve(cur, true, 0)
		if n != nil {
			if n.kind != kDir {
				return pathErr("mkdir", cur, syscall.ENOTDIR)
			}
			continue
		}
		if err := OsMkdir(cur, perm); err != nil {
			// like os.MkdirAll: somebody else may have created it meanwhile
			if _, _, n2, _ := resolve(cur, true, 0); n2 != nil && n2.kind == kDir {
				continue
			}
			return err
		}
	}
	return nil
}

func OsSymlink(oldname, newname string) error {
	rt.Yield() // every file-system call is one atomic step; the scheduling point is before it
	parent, base, _, errno := resolve(newname, false, 0)
	if parent == nil {
		if errno == 0 {
			errno = syscall.EEXIST
		}
		return &os.LinkError{Op: "symlink", Old: oldname, New: newname, Err: errno}
	}
	if parent.lookup(base) != nil {
		return &os.LinkError{Op: "symlink", Old: oldname, New: newname, Err: syscall.EEXIST}
	}
	if !mutate("symlink", newname) {
		return nil
	}
	parent.add(base, &node{kind: kSymlink, target: oldname, mode: os.ModeSymlink | 0o777})
	return nil
}

func OsRemove(name string) error {
	rt.Yield() // every file-system call is one atomic step; the scheduling point is before it
	parent, base, n, errno := resolve(name, false, 0)
	if n == nil {
		return pathErr("remove", name, errno)
	}
	if parent == nil {
		return pathErr("remove", name, syscall.EBUSY)
	}
	if n.kind == kDir && len(n.names) > 0 {
		return pathErr("remove", name, syscall.ENOTEMPTY)
	}
	if !mutate("remove", name) {
		return nil
	}
	parent.remove(base)
	return nil
}

func OsRemoveAll(name string) error {
	rt.Yield() // every file-system call is one atomic step; the scheduling point is before it
	parent, base, n, errno := resolve(name, false, 0)
	if n == nil {
		if errno == syscall.ENOENT {
			return nil
		}
		if errno == syscall.ENOTDIR {
			// os.RemoveAll reports ENOTDIR when a path component is a file
			return pathErr("unlinkat", name, errno)
		}
		return pathErr("removeall", name, errno)
	}
	if parent == nil {
		return pathErr("removeall", name, syscall.EBUSY)
	}
	if !mutate("removeall", name) {
		return nil
	}
	parent.remove(base)
	return nil
}

func OsRename(oldpath, newpath string) error {
	rt.Yield() // every file-system call is one atomic step; the scheduling point is before it
	op, ob, on, errno := resolve(oldpath, false, 0)
	if on == nil || op == nil {
		if errno == 0 {
			errno = syscall.EBUSY
		}
		return &os.LinkError{Op: "rename", Old: oldpath, New: newpath, Err: errno}
	}
	np, nb, nn, errno2 := resolve(newpath, false, 0)
	if np == nil {
		if errno2 == 0 {
			errno2 = syscall.EBUSY
		}
		return &os.LinkError{Op: "rename", Old: oldpath, New: newpath, Err: errno2}
	}
	if nn != nil {
		if nn == on {
			return nil
		}
		if nn.kind == kDir {
			if on.kind != kDir {
				return &os.LinkError{Op: "rename", Old: oldpath, New: newpath, Err: syscall.EISDIR}
			}
			if len(nn.names) > 0 {
				return &os.LinkError{Op: "rename", Old: oldpath, New: newpath, Err: syscall.ENOTEMPTY}
			}
		} else if on.kind == kDir {
			return &os.LinkError{Op: "rename", Old: oldpath, New: newpath, Err: syscall.ENOTDIR}
		}
	}
	if on.kind == kDir {
		// cannot move a directory into itself
		c := filepath.Clean(oldpath)
		if strings.HasPrefix(filepath.Clean(newpath)+"/", c+"/") && filepath.Clean(newpath) != c {
			return &os.LinkError{Op: "rename", Old: oldpath, New: newpath, Err: syscall.EINVAL}
		}
	}
	if !mutate("rename", oldpath+" -> "+newpath) {
		return nil
	}
	if nn != nil {
		np.remove(nb)
	}
	op.remove(ob)
	np.add(nb, on)
	return nil
}

func OsTruncate(name string, size int64) error {
	rt.Yield() // every file-system call is one atomic step; the scheduling point is before it
	_, _, n, errno := resolve(name, true, 0)
	if n == nil {
		return pathErr("truncate", name, errno)
	}
	if n.kind == kDir {
		return pathErr("truncate", name, syscall.EISDIR)
	}
	if size < 0 {
		return pathErr("truncate", name, syscall.EINVAL)
	}
	if !mutate("truncate", name) {
		return nil
	}
	n.truncate(size)
	return nil
}

func (n *node) truncate(size int64) {
	if int64(len(n.data)) > size {
		n.data = n.data[:size]
		return
	}
	for int64(len(n.data)) < size {
		n.data = append(n.data, 0)
	}
}

func OsChmod(name string, mode os.FileMode) error {
	rt.Yield() // every file-system call is one atomic step; the scheduling point is before it
	_, _, n, errno := resolve(name, true, 0)
	if n == nil {
		return pathErr("chmod", name, errno)
	}
	if !mutate("chmod", name) {
		return nil
	}
	n.mode = (n.mode &^ os.ModePerm) | mode.Perm()
	return nil
}

func OsMkdirTemp(dir, pattern string) (string, error) {
	if dir == "" {
		dir = "/tmp"
	}
	tempCounter++
	name := filepath.Join(dir, strings.ReplaceAll(pattern, "*", "")+"t"+itoa(tempCounter))
	if err := OsMkdirAll(name, 0o700); err != nil {
		return "", err
	}
	return name, nil
}

func itoa(n int) string {
	if n == 0 {
		return "0"
	}
	s := ""
	for n > 0 {
		s = string(rune('0'+n%10)) + s
		n /= 10
	}
	return s
}

func OsGetwd() (string, error) { return "/", nil }

func FilepathAbs(p string) (string, error) {
	if filepath.IsAbs(p) {
		return filepath.Clean(p), nil
	}
	return filepath.Join("/", p), nil
}

func sortedNames(n *node) []string {
	names := append([]string(nil), n.names...)
	sort.Strings(names)
	return names
}

func OsReadDir(name string) ([]os.DirEntry, error) {
	rt.Yield()
	_, _, n, errno := resolve(name, true, 0)
	if n == nil {
		return nil, pathErr("open", name, errno)
	}
	if n.kind != kDir {
		return nil, pathErr("readdirent", name, syscall.ENOTDIR)
	}
	var out []os.DirEntry
	for _, nm := range sortedNames(n) {
		out = append(out, infoOf(n.lookup(nm), nm))
	}
	return out, nil
}

func IoutilReadDir(name string) ([]os.FileInfo, error) {
	rt.Yield()
	_, _, n, errno := resolve(name, true, 0)
	if n == nil {
		return nil, pathErr("open", name, errno)
	}
	if n.kind != kDir {
		return nil, pathErr("readdirent", name, syscall.ENOTDIR)
	}
	var out []os.FileInfo
	for _, nm := range sortedNames(n) {
		out = append(out, infoOf(n.lookup(nm), nm))
	}
	return out, nil
}

// FilepathWalk mirrors path/filepath.Walk (lexical order, Lstat semantics).
func FilepathWalk(root string, fn filepath.WalkFunc) error {
	info, err := OsLstat(root)
	if err != nil {
		err = fn(root, nil, err)
	} else {
		err = walk(root, info, fn)
	}
	if err == filepath.SkipDir || err == filepath.SkipAll {
		return nil
	}
	return err
}

func walk(path string, info os.FileInfo, walkFn filepath.WalkFunc) error {
	if !info.IsDir() {
		return walkFn(path, info, nil)
	}
	_, _, n, _ := resolve(path, false, 0)
	var names []string
	var err error
	if n == nil || n.kind != kDir {
		err = pathErr("open", path, syscall.ENOENT)
	} else {
		names = sortedNames(n)
	}
	err1 := walkFn(path, info, err)
	if err != nil || err1 != nil {
		return err1
	}
	for _, name := range names {
		filename := filepath.Join(path, name)
		fileInfo, err := OsLstat(filename)
		if err != nil {
			if err := walkFn(filename, fileInfo, err); err != nil && err != filepath.SkipDir {
				return err
			}
		} else {
			err = walk(filename, fileInfo, walkFn)
			if err != nil {
				if !fileInfo.IsDir() || err != filepath.SkipDir {
					return err
				}
			}
		}
	}
	return nil
}

// ---- files ------------------------------------------------------------------------

type handle struct {
	n      *node
	path   string
	pos    int64
	rd, wr bool
	app    bool
	closed bool
	dirPos int
}

func newFile(h *handle) *os.File {
	f := new(os.File)
	rt.Attach(f, h)
	return f
}

func handleOf(f *os.File) *handle {
	if f == nil {
		return nil
	}
	h, _ := rt.Attached(f).(*handle)
	return h
}

func OsOpenFile(name string, flag int, perm os.FileMode) (*os.File, error) {
	rt.Yield()
	parent, base, n, errno := resolve(name, true, 0)
	if n == nil {
		if errno != syscall.ENOENT || parent == nil || flag&os.O_CREATE == 0 {
			if errno == 0 {
				errno = syscall.ENOENT
			}
			return nil, pathErr("open", name, errno)
		}
		if l := parent.lookup(base); l != nil {
			// dangling symlink: creating through it is not needed by any caller
			return nil, pathErr("open", name, syscall.ENOENT)
		}
		if !mutate("create", name) {
			return newFile(&handle{n: &node{kind: kFile}, path: name, wr: true}), nil
		}
		n = &node{kind: kFile, mode: perm.Perm()}
		parent.add(base, n)
	} else {
		if flag&os.O_CREATE != 0 && flag&os.O_EXCL != 0 {
			return nil, pathErr("open", name, syscall.EEXIST)
		}
		if n.kind == kDir && flag&(os.O_WRONLY|os.O_RDWR) != 0 {
			return nil, pathErr("open", name, syscall.EISDIR)
		}
		if flag&os.O_TRUNC != 0 && n.kind == kFile && len(n.data) > 0 {
			if mutate("trunc", name) {
				n.data = nil
			}
		}
	}
	h := &handle{n: n, path: name}
	switch flag & (os.O_RDONLY | os.O_WRONLY | os.O_RDWR) {
	case os.O_RDONLY:
		h.rd = true
	case os.O_WRONLY:
		h.wr = true
	default:
		h.rd, h.wr = true, true
	}
	h.app = flag&os.O_APPEND != 0
	return newFile(h), nil
}

func OsOpen(name string) (*os.File, error) { return OsOpenFile(name, os.O_RDONLY, 0) }
func OsCreate(name string) (*os.File, error) {
	return OsOpenFile(name, os.O_RDWR|os.O_CREATE|os.O_TRUNC, 0o666)
}

func OsReadFile(name string) ([]byte, error) {
	rt.Yield()
	_, _, n, errno := resolve(name, true, 0)
	if n == nil {
		return nil, pathErr("open", name, errno)
	}
	if n.kind == kDir {
		return nil, pathErr("read", name, syscall.EISDIR)
	}
	return append([]byte{}, n.data...), nil
}

func OsWriteFile(name string, data []byte, perm os.FileMode) error {
	f, err := OsOpenFile(name, os.O_WRONLY|os.O_CREATE|os.O_TRUNC, perm)
	if err != nil {
		return err
	}
	_, err = FileWrite(f, data)
	if err1 := FileClose(f); err1 != nil && err == nil {
		err = err1
	}
	return err
}

func fileErr(op string, f *os.File) (*handle, error) {
	h := handleOf(f)
	if h == nil {
		return nil, os.ErrInvalid
	}
	if h.closed {
		return nil, &os.PathError{Op: op, Path: h.path, Err: os.ErrClosed}
	}
	return h, nil
}

func FileRead(f *os.File, b []byte) (int, error) {
	h, err := fileErr("read", f)
	if err != nil {
		return 0, err
	}
	rt.Yield()
	if h.n.kind == kDir {
		return 0, pathErr("read", h.path, syscall.EISDIR)
	}
	if !h.rd {
		return 0, pathErr("read", h.path, syscall.EBADF)
	}
	if len(b) == 0 {
		return 0, nil
	}
	if h.pos >= int64(len(h.n.data)) {
		return 0, io.EOF
	}
	n := copy(b, h.n.data[h.pos:])
	h.pos += int64(n)
	return n, nil
}

func FileReadAt(f *os.File, b []byte, off int64) (int, error) {
	h, err := fileErr("read", f)
	if err != nil {
		return 0, err
	}
	rt.Yield()
	if off < 0 {
		return 0, &os.PathError{Op: "readat", Path: h.path, Err: os.ErrInvalid}
	}
	if off >= int64(len(h.n.data)) {
		return 0, io.EOF
	}
	n := copy(b, h.n.data[off:])
	if n < len(b) {
		return n, io.EOF
	}
	return n, nil
}

func FileWrite(f *os.File, b []byte) (int, error) {
	rt.Yield() // every file-system call is one atomic step; the scheduling point is before it
	h, err := fileErr("write", f)
	if err != nil {
		return 0, err
	}
	if !h.wr {
		return 0, pathErr("write", h.path, syscall.EBADF)
	}
	if !mutate("write", h.path) {
		return len(b), nil
	}
	if h.app {
		h.pos = int64(len(h.n.data))
	}
	if int64(len(h.n.data)) < h.pos {
		h.n.truncate(h.pos)
	}
	for i, c := range b {
		p := h.pos + int64(i)
		if p < int64(len(h.n.data)) {
			h.n.data[p] = c
		} else {
			h.n.data = append(h.n.data, c)
		}
	}
	h.pos += int64(len(b))
	return len(b), nil
}

func FileWriteString(f *os.File, s string) (int, error) { return FileWrite(f, []byte(s)) }

func FileWriteAt(f *os.File, b []byte, off int64) (int, error) {
	rt.Yield() // every file-system call is one atomic step; the scheduling point is before it
	h, err := fileErr("write", f)
	if err != nil {
		return 0, err
	}
	if !mutate("writeat", h.path) {
		return len(b), nil
	}
	if int64(len(h.n.data)) < off {
		h.n.truncate(off)
	}
	for i, c := range b {
		p := off + int64(i)
		if p < int64(len(h.n.data)) {
			h.n.data[p] = c
		} else {
			h.n.data = append(h.n.data, c)
		}
	}
	return len(b), nil
}

func FileSeek(f *os.File, offset int64, whence int) (int64, error) {
	h, err := fileErr("seek", f)
	if err != nil {
		return 0, err
	}
	var np int64
	switch whence {
	case io.SeekStart:
		np = offset
	case io.SeekCurrent:
		np = h.pos + offset
	case io.SeekEnd:
		np = int64(len(h.n.data)) + offset
	default:
		return 0, pathErr("seek", h.path, syscall.EINVAL)
	}
	if np < 0 {
		return 0, pathErr("seek", h.path, syscall.EINVAL)
	}
	h.pos = np
	return np, nil
}

func FileStat(f *os.File) (os.FileInfo, error) {
	h, err := fileErr("stat", f)
	if err != nil {
		return nil, err
	}
	return infoOf(h.n, filepath.Base(h.path)), nil
}

func FileTruncate(f *os.File, size int64) error {
	rt.Yield() // every file-system call is one atomic step; the scheduling point is before it
	h, err := fileErr("truncate", f)
	if err != nil {
		return err
	}
	if size < 0 {
		return pathErr("truncate", h.path, syscall.EINVAL)
	}
	if !mutate("ftruncate", h.path) {
		return nil
	}
	h.n.truncate(size)
	return nil
}

func FileSync(f *os.File) error {
	_, err := fileErr("sync", f)
	return err
}

func FileClose(f *os.File) error {
	h := handleOf(f)
	if h == nil {
		return os.ErrInvalid
	}
	if h.closed {
		return &os.PathError{Op: "close", Path: h.path, Err: os.ErrClosed}
	}
	h.closed = true
	return nil
}

func FileName(f *os.File) string {
	h := handleOf(f)
	if h == nil {
		return ""
	}
	return h.path
}

func FileChmod(f *os.File, mode os.FileMode) error {
	h, err := fileErr("chmod", f)
	if err != nil {
		return err
	}
	h.n.mode = (h.n.mode &^ os.ModePerm) | mode.Perm()
	return nil
}

func FileReaddirnames(f *os.File, n int) ([]string, error) {
	h, err := fileErr("readdirent", f)
	if err != nil {
		return nil, err
	}
	if h.n.kind != kDir {
		return nil, pathErr("readdirent", h.path, syscall.ENOTDIR)
	}
	names := sortedNames(h.n)
	if h.dirPos > len(names) {
		h.dirPos = len(names)
	}
	rest := names[h.dirPos:]
	if n > 0 && len(rest) > n {
		rest = rest[:n]
	}
	h.dirPos += len(rest)
	if n > 0 && len(rest) == 0 {
		return nil, io.EOF
	}
	return rest, nil
}

func FileReaddir(f *os.File, n int) ([]os.FileInfo, error) {
	names, err := FileReaddirnames(f, n)
	if err != nil {
		return nil, err
	}
	h := handleOf(f)
	var out []os.FileInfo
	for _, nm := range names {
		if k := h.n.lookup(nm); k != nil {
			out = append(out, infoOf(k, nm))
		}
	}
	return out, nil
}

// CopyBufSize is the buffer size of io.Copy and (*os.File).ReadFrom: 32 KiB in
// production, scaled together with the block size in regime S.
func copyBufSize() int {
	if rt.HasParam("copybuf") {
		return rt.Param("copybuf")
	}
	return 32 * 1024
}

type onlyWriter struct{ io.Writer }

type fileWriter struct{ f *os.File }

func (w fileWriter) Write(p []byte) (int, error) { return FileWrite(w.f, p) }

func FileReadFrom(f *os.File, r io.Reader) (int64, error) {
	return IoCopyBuffer(fileWriter{f}, r, nil)
}

type fileReader struct{ f *os.File }

func (r fileReader) Read(p []byte) (int, error) { return FileRead(r.f, p) }

func FileWriteTo(f *os.File, w io.Writer) (int64, error) {
	return IoCopyBuffer(w, fileReader{f}, nil)
}

// IoCopyBuffer mirrors io.copyBuffer with a configurable default buffer size.
func IoCopyBuffer(dst io.Writer, src io.Reader, buf []byte) (written int64, err error) {
	if wt, ok := src.(io.WriterTo); ok {
		return wt.WriteTo(dst)
	}
	if rf, ok := dst.(io.ReaderFrom); ok {
		return rf.ReadFrom(src)
	}
	if buf == nil {
		size := copyBufSize()
		if l, ok := src.(*io.LimitedReader); ok && int64(size) > l.N {
			if l.N < 1 {
				size = 1
			} else {
				size = int(l.N)
			}
		}
		buf = make([]byte, size)
	}
	for {
		nr, er := src.Read(buf)
		if nr > 0 {
			nw, ew := dst.Write(buf[0:nr])
			if nw < 0 || nr < nw {
				nw = 0
				if ew == nil {
					ew = io.ErrShortWrite
				}
			}
			written += int64(nw)
			if ew != nil {
				err = ew
				break
			}
			if nr != nw {
				err = io.ErrShortWrite
				break
			}
		}
		if er != nil {
			if er != io.EOF {
				err = er
			}
			break
		}
	}
	return written, err
}

// InitOS replaces package os's initialiser.
func InitOS() {
	os.ErrInvalid = fs.ErrInvalid
	os.ErrPermission = fs.ErrPermission
	os.ErrExist = fs.ErrExist
	os.ErrNotExist = fs.ErrNotExist
	os.ErrClosed = fs.ErrClosed
}

// ---- harness-side access (called through rt wrappers) -------------------------------

func ArmCrashAfter(n int) { crashAfter = n }
func Unfreeze()           { frozen = false; crashAfter = -1 }
func MutationCount() int  { return Mutations }
func MutationLog() []string { return nil }
