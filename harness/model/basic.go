// Package model holds Go-level environment models that the gosym engine
// substitutes for real library functions (see the replace table in
// engine/interp/models.go). They are interpreted like any other target code,
// so symbolic data flows through them unchanged. They are never used natively.
package model

import (
	"context"
	"errors"
	"hash"
	"strconv"
	"time"
)

// ---- crypto/md5: injective "hash": content followed by its length -----------

type idHash struct{ buf []byte }

var _ hash.Hash = (*idHash)(nil)

func MD5New() hash.Hash { return &idHash{} }

func (h *idHash) Write(p []byte) (int, error) {
	h.buf = append(h.buf, p...)
	return len(p), nil
}

func (h *idHash) Sum(b []byte) []byte {
	n := len(h.buf)
	out := append(b, h.buf...)
	return append(out, byte(n), byte(n>>8), byte(n>>16), byte(n>>24))
}

func (h *idHash) Reset()         { h.buf = h.buf[:0] }
func (h *idHash) Size() int      { return 16 }
func (h *idHash) BlockSize() int { return 64 }

// ---- context ------------------------------------------------------------------

type ctxModel struct {
	parent   *ctxModel
	done     chan struct{}
	err      error
	children []*ctxModel
	cancelable bool
}

var background = &ctxModel{}

func (c *ctxModel) Deadline() (time.Time, bool) { return time.Time{}, false }
func (c *ctxModel) Done() <-chan struct{} {
	if c.done == nil {
		return nil
	}
	return c.done
}
func (c *ctxModel) Err() error          { return c.err }
func (c *ctxModel) Value(key any) any   { return nil }

func ContextBackground() context.Context { return background }

func (c *ctxModel) cancel(err error) {
	if c.err != nil {
		return
	}
	c.err = err
	if c.done != nil {
		close(c.done)
	}
	for _, ch := range c.children {
		ch.cancel(err)
	}
}

func ContextWithCancel(parent context.Context) (context.Context, context.CancelFunc) {
	p, _ := parent.(*ctxModel)
	c := &ctxModel{parent: p, done: make(chan struct{}), cancelable: true}
	if p != nil {
		if p.err != nil {
			c.cancel(p.err)
		} else {
			p.children = append(p.children, c)
		}
	}
	return c, func() { c.cancel(context.Canceled) }
}

var errCanceledModel = errors.New("context canceled")

// BytesCompare mirrors bytes.Compare on possibly symbolic content (branching per byte).
func BytesCompare(a, b []byte) int {
	n := len(a)
	if len(b) < n {
		n = len(b)
	}
	for i := 0; i < n; i++ {
		if a[i] != b[i] {
			if a[i] < b[i] {
				return -1
			}
			return 1
		}
	}
	switch {
	case len(a) < len(b):
		return -1
	case len(a) > len(b):
		return 1
	}
	return 0
}

// InitStrconv replaces package strconv's initialiser: only the two error values matter to the code
// under test (the formatting tables are not used by the interpreted paths).
func InitStrconv() {
	strconv.ErrRange = errors.New("value out of range")
	strconv.ErrSyntax = errors.New("invalid syntax")
}
