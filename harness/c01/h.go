// Package c01: diff then apply reproduces the new build exactly.
package c01

import (
	"github.com/itchio/wharf/zzverif/hlib"
	"github.com/itchio/wharf/zzverif/rt"
)

func H_witness() {
	a := rt.Byte("a")
	rt.Assert(a != 200, "witness")
	rt.Reach("end")
}

func diffApplyCheck(root string, old, neu *hlib.Build) {
	old.Write(root + "/old")
	neu.Write(root + "/new")
	d := hlib.Diff(root+"/old", root+"/new")
	err := hlib.ApplyFresh(d.Patch, root+"/old", root+"/out")
	rt.Assert(err == nil, "apply returns no error")
	hlib.AssertSame(hlib.Snapshot(root+"/out"), neu.Entries(), "out==new")
	hlib.AssertSame(hlib.Snapshot(root+"/old"), old.Entries(), "old untouched")
}

// H_pair (coincidence hunter): one or two old files and one new file, fully
// symbolic contents: weak-hash collisions, equal blocks, tails equal to prefixes
// are all reachable. Params: n0, n1 (-1 absent), nnew.
func H_pair() {
	hlib.SetCopyBuf()
	root := rt.TempDir()
	old := &hlib.Build{Files: []hlib.File{{Path: "a", Data: rt.Bytes("old0", rt.Param("n0"))}}}
	if rt.Param("n1") >= 0 {
		old.Files = append(old.Files, hlib.File{Path: "b", Data: rt.Bytes("old1", rt.Param("n1"))})
	}
	neu := &hlib.Build{Files: []hlib.File{{Path: "a", Data: rt.Bytes("new", rt.Param("nnew"))}}}
	diffApplyCheck(root, old, neu)
	rt.Reach("end")
}

func cat(bs ...[]byte) []byte {
	var out []byte
	for _, b := range bs {
		out = append(out, b...)
	}
	return out
}

// derive builds the content of a new file from old file o according to selector sel.
func derive(sel int, o []byte, label string) (data []byte, ok bool) {
	B := hlib.B()
	switch sel {
	case 0, 1, 2: // identical (same path / renamed / duplicated): content as is
		return append([]byte{}, o...), true
	case 3: // block-aligned prefix
		if len(o) < B {
			return nil, false
		}
		return append([]byte{}, o[:B]...), true
	case 4: // block-aligned suffix
		if len(o) <= B {
			return nil, false
		}
		return append([]byte{}, o[B:]...), true
	case 5: // one-byte edit in the middle
		if len(o) == 0 {
			return nil, false
		}
		d := append([]byte{}, o...)
		d[len(o)/2] = rt.Byte(label + "-edit")
		return d, true
	case 6: // insertion of two bytes after the first byte
		if len(o) == 0 {
			return nil, false
		}
		return cat(o[:1], rt.Bytes(label+"-ins", 2), o[1:]), true
	case 7: // fresh content
		return rt.Bytes(label+"-fresh", B+1), true
	case 8: // empty
		return []byte{}, true
	}
	return nil, false
}

// H_shapes: tree shapes. Old build: files x (n0 bytes), sub/y (n1 bytes), an empty dir
// and a symlink. New build: two file slots derived from x resp. sub/y by the selectors
// s0, s1 (see derive), with symlink/dir changes chosen by `extra`.
// All symbolic bytes are assumed pairwise distinct (generic position).
func H_shapes() {
	hlib.SetCopyBuf()
	root := rt.TempDir()
	x := rt.Bytes("x", rt.Param("n0"))
	y := rt.Bytes("y", rt.Param("n1"))
	old := &hlib.Build{Files: []hlib.File{{Path: "x", Data: x}, {Path: "sub/y", Data: y}}, Dirs: []string{"empty"}, Links: []hlib.Link{{Path: "lnk", Dest: "x"}}}
	s0, s1, extra := rt.Param("s0"), rt.Param("s1"), rt.Param("extra")
	d0, ok0 := derive(s0, x, "n0")
	d1, ok1 := derive(s1, y, "n1")
	if !ok0 || !ok1 {
		rt.Reach("end") // shape not applicable to these sizes
		return
	}
	var all [][]byte
	all = append(all, x, y)
	if s0 >= 5 && s0 <= 7 {
		all = append(all, d0)
	}
	neu := &hlib.Build{}
	switch s0 {
	case 1:
		neu.Files = append(neu.Files, hlib.File{Path: "renamed-x", Data: d0})
	case 2:
		neu.Files = append(neu.Files, hlib.File{Path: "x", Data: d0}, hlib.File{Path: "sub/copy-of-x", Data: append([]byte{}, d0...)})
	default:
		neu.Files = append(neu.Files, hlib.File{Path: "x", Data: d0})
	}
	switch s1 {
	case 1:
		neu.Files = append(neu.Files, hlib.File{Path: "moved/y", Data: d1})
	case 2:
		neu.Files = append(neu.Files, hlib.File{Path: "sub/y", Data: d1}, hlib.File{Path: "y2", Data: append([]byte{}, d1...)})
	default:
		neu.Files = append(neu.Files, hlib.File{Path: "sub/y", Data: d1})
	}
	switch extra {
	case 0: // symlink and dir kept
		neu.Dirs = []string{"empty"}
		neu.Links = []hlib.Link{{Path: "lnk", Dest: "x"}}
	case 1: // symlink retargeted, dir removed
		neu.Links = []hlib.Link{{Path: "lnk", Dest: "sub/y"}}
	case 2: // symlink removed, new empty dir and new symlink added
		neu.Dirs = []string{"empty", "another/empty"}
		neu.Links = []hlib.Link{{Path: "sub/l2", Dest: "../x"}}
	}
	// generic position: distinct symbolic bytes (derived copies share terms, fresh parts are new symbols)
	hlib.DistinctSyms(x, y, d0, d1)
	diffApplyCheck(root, old, neu)
	rt.Reach("end")
}

// prng fills b with a fixed pseudo-random sequence (regime R: concrete content, a few symbolic bytes).
func prng(b []byte, seed uint32) {
	x := seed
	for i := range b {
		x = x*1103515245 + 12345
		b[i] = byte(x >> 16)
	}
}

// H_real: REGIME R - no constant is scaled (64 KiB blocks, 4 MiB data ops, 32 KiB buffers). Old build: file a of
// nb blocks + 100 bytes, file b of 1 block + 1 byte (concrete pseudo-random). New build, by shape: 0 two symbolic
// bytes inserted into a at an unaligned offset and one byte of its tail edited; 1 a = its second block onwards
// followed by a fresh symbolic byte, b duplicated; 2 a and b swapped, a's first byte symbolic. Diff, apply fresh,
// compare. Params: nb, shape.
func H_real() {
	hlib.SetCopyBuf()
	B := hlib.B()
	nb := rt.Param("nb")
	A, Bc := make([]byte, nb*B+100), make([]byte, B+1)
	prng(A, 1)
	prng(Bc, 2)
	old := &hlib.Build{Files: []hlib.File{{Path: "a", Data: A}, {Path: "b", Data: Bc}}}
	var neu *hlib.Build
	switch rt.Param("shape") {
	case 0:
		at := B + 4321
		NA := cat(A[:at], []byte{rt.Byte("ins0"), rt.Byte("ins1")}, A[at:])
		NA[len(NA)-3] = rt.Byte("tail-edit")
		neu = &hlib.Build{Files: []hlib.File{{Path: "a", Data: NA}, {Path: "b", Data: append([]byte{}, Bc...)}}}
	case 1:
		neu = &hlib.Build{Files: []hlib.File{{Path: "a", Data: cat(A[B:], []byte{rt.Byte("fresh")})}, {Path: "b", Data: append([]byte{}, Bc...)}, {Path: "b2", Data: append([]byte{}, Bc...)}}}
	case 2:
		NB := append([]byte{}, A...)
		NB[0] = rt.Byte("first")
		neu = &hlib.Build{Files: []hlib.File{{Path: "a", Data: append([]byte{}, Bc...)}, {Path: "b", Data: NB}}}
	}
	root := rt.TempDir()
	diffApplyCheck(root, old, neu)
	rt.Reach("end")
}
