// Package c01: diff then apply reproduces the new build exactly.
package c01

import (
	"github.com/itchio/wharf/zzverif/hlib"
	"github.com/itchio/wharf/zzverif/rt"
)

func H_witness() {
	a := rt.Byte("a")
	rt.Assert(a != 200, "witness")
	rt.Reach("end")
}

// H_pair: one old file, one new file at the same path, fully symbolic contents.
// Params: nold, nnew (bytes), B comes from the scaled pwr.BlockSize.
func H_pair() {
	rt.SetParam("copybuf", 2)
	root := rt.TempDir()
	old := &hlib.Build{Files: []hlib.File{{Path: "a", Data: rt.Bytes("old", rt.Param("nold"))}}}
	neu := &hlib.Build{Files: []hlib.File{{Path: "a", Data: rt.Bytes("new", rt.Param("nnew"))}}}
	old.Write(root + "/old")
	neu.Write(root + "/new")
	d := hlib.Diff(root+"/old", root+"/new")
	err := hlib.ApplyFresh(d.Patch, root+"/old", root+"/out")
	rt.Assert(err == nil, "apply returns no error")
	hlib.AssertSame(hlib.Snapshot(root+"/out"), neu.Entries(), "out==new")
	hlib.AssertSame(hlib.Snapshot(root+"/old"), old.Entries(), "old untouched")
	rt.Reach("end")
}
