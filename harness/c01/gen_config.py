#!/usr/bin/env python3
import json
def sc(b,mdo): return [{"set":"b%d"%b,"file":"pwr/constants.go","ident":"BlockSize","value":str(b)},
  {"set":"b%d"%b,"file":"wsync/algo.go","ident":"MaxDataOp","value":str(mdo)},
  {"set":"b%d"%b,"file":"wsync/algo.go","ident":"minBufferSize","func":"ApplySingleFull","value":str(max(1,b//2))},
  {"set":"b%d"%b,"file":"pwr/bowl/bowl_fresh.go","ident":"freshBufferSize","value":str(max(1,b//2))}]
scale=sc(2,5)+sc(3,6)+sc(4,8)
Q=["quick","thorough"];T=["thorough"]
H=[{"name":"H_witness","tiers":Q,"expect":"violation","bounds":"vacuity witness"}]
H.append({"name":"H_pair","tiers":Q,"scale":"b2","bounds":"B=2: one old file 0..B+2, new 0..2B+1, fully symbolic bytes (coincidences reachable)",
  "param_sets":[{"n0":a,"n1":-1,"nnew":n} for a in range(0,5) for n in range(0,6)]})
H.append({"name":"H_pair","tiers":Q,"scale":"b4","bounds":"B=4: old {0,4,5}, new {0,4,5,6}",
  "param_sets":[{"n0":a,"n1":-1,"nnew":n} for a in (0,4,5) for n in (0,4,5,6)]})
H.append({"name":"H_shapes","tiers":Q,"scale":"b2","bounds":"B=2: old files x (3 or 5 bytes) and sub/y (0 or 4), each new slot derived by one of 9 relations (identical, renamed, duplicated, block-aligned prefix/suffix, 1-byte edit, insertion, fresh, empty), symlink/dir kept/retargeted/replaced; generic-position contents",
  "param_sets":[{"n0":a,"n1":b,"s0":s0,"s1":s1,"extra":e} for (a,b) in ((5,4),(3,0)) for s0 in range(0,9) for s1 in range(0,9) for e in (0,1,2) if (s0+s1+e)%3==0 or s0==s1]})
H.append({"name":"H_pair","tiers":T,"scale":"b3","bounds":"B=3: two old files 0..2B+1 / 0..B, new 0..2B-1 (new of 2B or more with old of B+1 or more exceeds the per-instance budget)","max_seconds":900,
  "param_sets":[{"n0":a,"n1":b,"nnew":n} for a in range(0,8) for b in (-1,0,3) for n in range(0,8) if not (n>=6 and a>=4)]})
H.append({"name":"H_shapes","tiers":T,"scale":"b2","bounds":"B=2: all 9x9x3 shape combinations for sizes (5,4),(3,0),(4,2),(2,5)","max_seconds":1500,
  "param_sets":[{"n0":a,"n1":b,"s0":s0,"s1":s1,"extra":e} for (a,b) in ((5,4),(3,0),(4,2),(2,5)) for s0 in range(0,9) for s1 in range(0,9) for e in (0,1,2)]})
H.append({"name":"H_shapes","tiers":T,"scale":"b4","bounds":"B=4: sizes (9,4),(5,8): all shape pairs except the insertion shape (6) on the larger file, extra=0","max_seconds":900,
  "param_sets":[{"n0":a,"n1":b,"s0":s0,"s1":s1,"extra":0} for (a,b) in ((9,4),(5,8)) for s0 in range(0,9) for s1 in range(0,9) if not ((a==9 and s0 in (6,7)) or (b==8 and s1==6))]})
H.append({"name":"H_pair","tiers":Q,"scale":"b2","bounds":"the same through the two model codecs (compression wiring: header, stream, trailer, decompressing source): B=2, old 0..4, new in {0,3,5}",
  "param_sets":[{"n0":a,"n1":-1,"nnew":n,"comp":c} for a in (0,2,3,4) for n in (0,3,5) for c in (1,2)]})
H.append({"name":"H_real","tiers":Q,"max_steps":2000000000,"bounds":"REGIME R (no constant scaled): old a = 2 blocks + 100 bytes, b = 1 block + 1 byte, concrete pseudo-random; new = unaligned 2-byte symbolic insertion + tail edit / second block onwards + fresh byte + duplicated file / swapped files with a symbolic first byte",
  "param_sets":[{"nb":2,"shape":sh} for sh in (0,1,2)]})
json.dump({"property":"C01","package":"c01","scale":scale,"harnesses":H,
 "stubs":["os -> in-memory file system model (copy buffer = B/2 as 32 KiB is to 64 KiB)","crypto/md5 -> injective model","protobuf/wire -> tag-faithful codec model","goroutines of the differ under the deterministic run-until-block schedule (schedules: C15)"],
 "outside":["the real gzip/brotli codecs (model codecs cover the wiring): gzip/brotli/zstd codecs are not encodable (cgo / input-length loops)","block size 64 KiB and sizes > 4 MiB (declared constants scaled; uses are real)","real file system"]},open("config.json","w"),indent=1)
for h in H: print(h["name"],h["tiers"],h.get("scale"),len(h.get("param_sets",[1])))
