package t00

import (
	"bufio"
	"bytes"
	"io"

	"github.com/itchio/wharf/zzverif/rt"
)

func H_bufio() {
	var rs io.ReadSeeker = bytes.NewReader([]byte{1, 2, 3, 4, 5})
	br := bufio.NewReader(rs)
	buf := make([]byte, 2)
	n, err := br.Read(buf)
	rt.Assert(n == 2 && err == nil, "read 2")
	rt.Assert(buf[0] == 1 && buf[1] == 2, "content")
	b, err := br.ReadByte()
	rt.Assert(b == 3 && err == nil, "readbyte")
	rt.Reach("end")
}
