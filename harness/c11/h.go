package c11

import (
	"bytes"
	"context"
	"io"

	"github.com/itchio/wharf/wsync"
	"github.com/itchio/wharf/zzverif/rt"
)

type memPool struct{ files [][]byte }

func (p *memPool) GetSize(i int64) int64 { return int64(len(p.files[i])) }
func (p *memPool) GetReader(i int64) (io.Reader, error) {
	return bytes.NewReader(p.files[i]), nil
}
func (p *memPool) GetReadSeeker(i int64) (io.ReadSeeker, error) {
	return bytes.NewReader(p.files[i]), nil
}
func (p *memPool) Close() error { return nil }

func H_smoke() {
	a := rt.Byte("a")
	b := rt.Byte("b")
	if a > 10 {
		rt.Assert(a+b != 7 || b >= 253 || a < 10, "dummy")
	}
	rt.Assert(uint32(a)+uint32(b) < 510, "sum")
	rt.Reach("end")
}

func H_roundtrip() {
	bs := rt.Param("bs")
	nold := rt.Param("nold")
	nnew := rt.Param("nnew")
	ctx := wsync.NewContext(bs)
	pool := &memPool{}
	var hashes []wsync.BlockHash
	f := rt.Bytes("old", nold)
	pool.files = append(pool.files, f)
	err := ctx.CreateSignature(context.Background(), 0, bytes.NewReader(f), func(h wsync.BlockHash) error {
		hashes = append(hashes, h)
		return nil
	})
	rt.Assert(err == nil, "signature ok")
	neu := rt.Bytes("new", nnew)
	var ops []wsync.Operation
	err = ctx.ComputeDiff(bytes.NewReader(neu), wsync.NewBlockLibrary(hashes), func(op wsync.Operation) error {
		if op.Type == wsync.OpData {
			op.Data = append([]byte(nil), op.Data...)
		}
		ops = append(ops, op)
		return nil
	}, -1)
	rt.Assert(err == nil, "diff ok")
	var out bytes.Buffer
	for _, op := range ops {
		rt.Assert(ctx.ApplySingle(&out, pool, op) == nil, "apply ok")
	}
	rt.Assert(rt.BytesEqual(out.Bytes(), neu), "replay == new")
	rt.Reach("end")
}
