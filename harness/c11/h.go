// Package c11: rsync operations reconstruct the source and stay within the old files.
package c11

import (
	"bytes"
	"context"
	"io"

	"github.com/itchio/wharf/wsync"
	"github.com/itchio/wharf/zzverif/rt"
)

type memPool struct{ files [][]byte }

func (p *memPool) GetSize(i int64) int64 { return int64(len(p.files[i])) }
func (p *memPool) GetReader(i int64) (io.Reader, error) {
	return bytes.NewReader(p.files[i]), nil
}
func (p *memPool) GetReadSeeker(i int64) (io.ReadSeeker, error) {
	return bytes.NewReader(p.files[i]), nil
}
func (p *memPool) Close() error { return nil }

// H_witness is the vacuity witness: it must be reported as violated.
func H_witness() {
	a := rt.Byte("a")
	rt.Assume(a > 3)
	rt.Assert(a != 77, "witness")
	rt.Reach("end")
}

func restrict(b []byte, alpha int) {
	if alpha > 0 {
		for _, c := range b {
			rt.Assume(int(c) < alpha)
		}
	}
}

// H_ops: the full property on symbolic old files / new content.
// Params: bs, n0,n1,n2 (old file lengths, -1 = absent), nnew, pref, alpha (0 = all 256 byte values).
func H_ops() {
	bs := rt.Param("bs")
	alpha := rt.Param("alpha")
	ctx := wsync.NewContext(bs)
	pool := &memPool{}
	var hashes []wsync.BlockHash
	for i, name := range []string{"n0", "n1", "n2"} {
		n := rt.Param(name)
		if n < 0 {
			break
		}
		f := rt.Bytes("old"+string(rune('0'+i)), n)
		if rt.HasParam("real") {
			x := uint32(1000 + i)
			for j := range f {
				x = x*1103515245 + 12345
				f[j] = byte(x >> 16)
			}
		}
		restrict(f, alpha)
		pool.files = append(pool.files, f)
		err := ctx.CreateSignature(context.Background(), int64(i), bytes.NewReader(f), func(h wsync.BlockHash) error {
			hashes = append(hashes, h)
			return nil
		})
		rt.Assert(err == nil, "signature ok")
	}
	neu := rt.Bytes("new", rt.Param("nnew"))
	restrict(neu, alpha)
	pref := int64(rt.Param("pref"))
	dataLimit := wsync.MaxDataOp
	if rt.HasParam("real") {
		// REGIME R: nothing is scaled and the limit is the documented 4 MiB, written out here. The new content is
		// concrete pseudo-random (one symbolic byte), `real` bytes long, followed by old file 0's first block.
		dataLimit = 4 * 1024 * 1024
		neu = make([]byte, rt.Param("real"))
		x := uint32(77)
		for i := range neu {
			x = x*1103515245 + 12345
			neu[i] = byte(x >> 16)
		}
		neu[len(neu)/2] = rt.Byte("mid")
		neu = append(neu, pool.files[0][:bs]...)
	}

	var ops []wsync.Operation
	err := ctx.ComputeDiff(bytes.NewReader(neu), wsync.NewBlockLibrary(hashes), func(op wsync.Operation) error {
		if op.Type == wsync.OpData {
			op.Data = append([]byte(nil), op.Data...)
		}
		ops = append(ops, op)
		return nil
	}, pref)
	rt.Assert(err == nil, "diff ok")

	var out bytes.Buffer
	for i, op := range ops {
		switch op.Type {
		case wsync.OpBlockRange:
			rt.Assert(op.FileIndex >= 0 && op.FileIndex < int64(len(pool.files)), "range names an old file")
			if op.FileIndex >= 0 && op.FileIndex < int64(len(pool.files)) {
				nb := (int64(len(pool.files[op.FileIndex])) + int64(bs) - 1) / int64(bs)
				rt.Assert(op.BlockIndex >= 0 && op.BlockSpan >= 1 && op.BlockIndex+op.BlockSpan <= nb, "range addresses existing blocks")
			}
			if i > 0 && ops[i-1].Type == wsync.OpBlockRange && ops[i-1].FileIndex == op.FileIndex {
				rt.Assert(ops[i-1].BlockIndex+ops[i-1].BlockSpan != op.BlockIndex, "consecutive ranges merged")
			}
		case wsync.OpData:
			rt.Assert(len(op.Data) <= dataLimit, "data op within MaxDataOp")
			rt.Assert(len(op.Data) > 0 || i == 0, "empty data op only leading")
		default:
			rt.Fail("unknown op type")
		}
		rt.Assert(ctx.ApplySingle(&out, pool, op) == nil, "apply ok")
	}
	rt.Assert(rt.BytesEqual(out.Bytes(), neu), "replay == new")
	rt.Observe("ops", len(ops))
	rt.Reach("end")
}
