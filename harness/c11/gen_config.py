#!/usr/bin/env python3
# Generates config.json for C11 (instance grids per tier).
import json
scale=[]
for mdo in (3,4,5,8):
    scale += [{"set":"m%d"%mdo,"file":"wsync/algo.go","ident":"MaxDataOp","value":str(mdo)},
              {"set":"m%d"%mdo,"file":"wsync/algo.go","ident":"minBufferSize","func":"ApplySingleFull","value":"4"}]
def sets(bs_list, olds, news, prefs, alpha=0):
    out=[]
    for bs in bs_list:
        for o in olds:
            nf=sum(1 for x in o if x>=0)
            for nn in news:
                for pref in prefs:
                    if pref >= nf: continue
                    out.append({"bs":bs,"n0":o[0],"n1":o[1],"n2":o[2],"nnew":nn,"pref":pref,"alpha":alpha})
    return out
one=lambda r:[(n,-1,-1) for n in r]
two=lambda r,tot:[(a,b,-1) for a in r for b in r if a+b<=tot]
three=lambda r,tot:[(a,b,c) for a in r for b in r for c in r if a+b+c<=tot]
H=[]
H.append({"name":"H_witness","tiers":["quick","thorough"],"expect":"violation","bounds":"vacuity witness (must be violated)"})
Q=["quick","thorough"]
H.append({"name":"H_ops","tiers":Q,"scale":"m8","bounds":"MaxDataOp=8; bs 2..4; one old file 0..4 bytes x new 0..6; two old files 0..2 each x new 0..4; all 256 byte values; every preferred index",
  "param_sets": sets([2,3,4], one(range(0,5)), range(0,7), [-1,0]) + sets([2,3], two(range(0,3),4), range(0,5), [-1,0,1])})
H.append({"name":"H_ops","tiers":Q,"scale":"m3","bounds":"MaxDataOp=3 (data-op splitting and buffer wrap-around inside tiny inputs); bs 1: old 0..1, new 0..6; bs 2: old 0..3, new 0..7",
  "param_sets": sets([2], one(range(0,4)), range(0,8), [-1]) + sets([1], one(range(0,2)), range(0,7), [-1])})
H.append({"name":"H_ops","tiers":Q,"scale":"m4","bounds":"MaxDataOp=4; bs 1: old 0..1, new 4..7 (buffer of exactly 2*bs+MaxDataOp bytes); bs 3: old 0..3, new 6..8",
  "param_sets": sets([1], one(range(0,2)), range(4,8), [-1]) + sets([3], one(range(0,4)), range(6,9), [-1])})
T=["thorough"]
H.append({"name":"H_ops","tiers":T,"scale":"m8","bounds":"MaxDataOp=8; bs 1..4; one old file 0..7 x new 0..7 (bs 1: old 0..4, new 0..5); two old files total <=6 x new 0..5 (bs>=2); three old files total <=4 x new 0..4 (bs>=2)","max_seconds":600,
  "param_sets": sets([2,3,4], one(range(5,8)), range(0,8), [-1,0]) + sets([2,3,4], one(range(0,5)), range(7,8), [-1,0]) + sets([1], one(range(0,5)), range(0,6), [-1,0])
               + sets([2,3,4], two(range(0,5),6), range(0,6), [-1,1]) + sets([2,3], three(range(0,3),4), range(0,5), [-1,2])})
H.append({"name":"H_ops","tiers":T,"scale":"m5","bounds":"MaxDataOp=5; bs 2..3; old 0..4; new 5..9","max_seconds":600,
  "param_sets": sets([2,3], one(range(0,5)), range(5,10), [-1])})
H.append({"name":"H_ops","tiers":T,"scale":"m3","bounds":"small alphabet {0,1,2} (the property's literal bound): bs 2..3, two old files 0..4 each, new 0..8","max_seconds":600,
  "param_sets": sets([2,3], two(range(0,5),7), range(5,9), [-1], alpha=3)})
H.append({"name":"H_ops","tiers":["thorough"],"max_steps":4000000000,"max_seconds":1500,"bounds":"REGIME R (MaxDataOp not scaled, limit written out as 4 MiB in the oracle): block size 4096, one old file of 2 blocks; new = 4 MiB-1 / 4 MiB / 4 MiB+1 / 4 MiB+4096+5 fresh bytes followed by the old file's first block",
  "param_sets":[{"bs":4096,"n0":8192,"n1":-1,"n2":-1,"nnew":0,"pref":0,"alpha":0,"real":r} for r in (4*1024*1024-1,4*1024*1024,4*1024*1024+1,4*1024*1024+4096+5)]})
H.append({"name":"H_ops","tiers":["quick","thorough"],"max_steps":2000000000,"bounds":"REGIME R, smaller: block size 4096, 300000 fresh bytes followed by the old file's first block (buffer handling at the real buffer size)",
  "param_sets":[{"bs":4096,"n0":8192,"n1":-1,"n2":-1,"nnew":0,"pref":0,"alpha":0,"real":300000}]})
json.dump({"property":"C11","package":"c11","scale":scale,"harnesses":H,
 "stubs":["crypto/md5 -> injective model (content + length), so strong-hash collisions are excluded","context.Background -> model context"],
 "outside":["block sizes, file counts and lengths beyond the listed grids","the real 4 MiB MaxDataOp (its declared value is scaled to 3..8 by an overlay; every use is the real code)","new content > 8 MiB at 64 KiB blocks (the property's random regime) is not run symbolically"]},
 open("config.json","w"),indent=1)
for h in H: print(h["name"],h["tiers"],h.get("scale"),len(h.get("param_sets",[1])))
