#!/usr/bin/env python3
# Generates config.json for C11 (instance grids per tier).
import json, itertools
scale=[]
for mdo in (3,4,5,8):
    scale += [{"set":"m%d"%mdo,"file":"wsync/algo.go","ident":"MaxDataOp","value":str(mdo)},
              {"set":"m%d"%mdo,"file":"wsync/algo.go","ident":"minBufferSize","func":"ApplySingleFull","value":"4"}]
def sets(bs_list, olds, news, prefs, alpha, total_old_max):
    out=[]
    for bs in bs_list:
        for o in olds:
            if sum(x for x in o if x>0) > total_old_max: continue
            nf=sum(1 for x in o if x>=0)
            for nn in news:
                for pref in prefs:
                    if pref >= nf: continue
                    out.append({"bs":bs,"n0":o[0],"n1":o[1],"n2":o[2],"nnew":nn,"pref":pref,"alpha":alpha})
    return out
H=[]
H.append({"name":"H_witness","tiers":["quick","thorough"],"expect":"violation","bounds":"vacuity witness (must be violated)"})
# quick: one old file 0..4, new 0..5, bs 2..3, all bytes; two old files small
one=[(n,-1,-1) for n in range(0,5)]
two=[(a,b,-1) for a in range(0,3) for b in range(0,3)]
H.append({"name":"H_ops","tiers":["quick","thorough"],"scale":"m8","bounds":"bs 2..3, one old file 0..4 bytes or two of 0..2, new 0..5, all 256 byte values, pref -1..nf-1, MaxDataOp=8",
  "param_sets": sets([2,3], one, range(0,6), [-1,0], 0, 4) + sets([2], two, range(0,5), [-1,0,1], 0, 4)})
H.append({"name":"H_ops","tiers":["quick","thorough"],"scale":"m3","bounds":"bs 1..2, one old file 0..3, new 0..6, MaxDataOp=3 (data-op splitting, buffer wrap)",
  "param_sets": sets([2], [(n,-1,-1) for n in range(0,4)], range(0,7), [-1], 0, 4)+sets([1], [(n,-1,-1) for n in range(0,3)], range(0,5), [-1], 0, 4)})
json.dump({"property":"C11","package":"c11","scale":scale,"harnesses":H,
 "stubs":["crypto/md5 -> injective model (content + length)","context.Background -> model context"],
 "outside":["block sizes and lengths beyond the listed grids","real 4 MiB MaxDataOp (scaled to 3..8 by overlay of the constant's declared value)"]},
 open("config.json","w"),indent=1)
print(sum(len(h.get("param_sets",[1])) for h in H),"instances")
