// Package c07: optimizing a patch never changes what it produces.
package c07

import (
	"github.com/itchio/wharf/zzverif/hlib"
	"github.com/itchio/wharf/zzverif/rt"
)

func H_witness() {
	a := rt.Byte("a")
	rt.Assert(a != 9, "witness")
	rt.Reach("end")
}

func clone(b []byte) []byte { return append([]byte{}, b...) }

func restrict(b []byte, alpha int) {
	for _, c := range b {
		rt.Assume(int(c) < alpha)
	}
}

// H_rediff. Params: a, b (old file lengths), shape, parts, conc, force, limit, alpha.
func H_rediff() {
	hlib.SetCopyBuf()
	alpha := rt.Param("alpha")
	A, B := rt.Bytes("A", rt.Param("a")), rt.Bytes("B", rt.Param("b"))
	restrict(A, alpha)
	restrict(B, alpha)
	old := &hlib.Build{Files: []hlib.File{{Path: "A", Data: A}, {Path: "B", Data: B}}}
	var neu *hlib.Build
	fresh := func(label string, n int) []byte {
		d := rt.Bytes(label, n)
		restrict(d, alpha)
		return d
	}
	switch rt.Param("shape") {
	case 0: // A edited in the middle, B unchanged
		if len(A) == 0 {
			rt.Reach("end")
			return
		}
		d := clone(A)
		d[len(A)/2] = fresh("edit", 1)[0]
		neu = &hlib.Build{Files: []hlib.File{{Path: "A", Data: d}, {Path: "B", Data: clone(B)}}}
	case 1: // A renamed with one byte inserted, B deleted
		neu = &hlib.Build{Files: []hlib.File{{Path: "A-renamed", Data: append(clone(A), fresh("ins", 1)...)}}}
	case 2: // a tiny new file (prefix of A plus a byte), A emptied, B kept
		n := 1
		if len(A) < n {
			n = len(A)
		}
		neu = &hlib.Build{Files: []hlib.File{{Path: "A", Data: []byte{}}, {Path: "tiny", Data: append(clone(A[:n]), fresh("t", 1)...)}, {Path: "B", Data: clone(B)}}}
	case 3: // new file = B followed by A (mapped to whichever shares more), plus a brand-new file
		neu = &hlib.Build{Files: []hlib.File{{Path: "BA", Data: append(clone(B), A...)}, {Path: "new", Data: fresh("n", 2)}}}
	case 4: // A shrinks to its first half, B grows by a fresh tail
		neu = &hlib.Build{Files: []hlib.File{{Path: "A", Data: clone(A[:len(A)/2])}, {Path: "B", Data: append(clone(B), fresh("tail", 2)...)}}}
	}
	root := rt.TempDir()
	old.Write(root + "/old")
	neu.Write(root + "/new")
	cin, cout := 0, 0
	if rt.HasParam("cin") {
		// compression settings of the input patch and of the optimizer's output (model codecs, hlib/codec.go)
		cin, cout = rt.Param("cin"), rt.Param("cout")
	}
	d := hlib.DiffC(root+"/old", root+"/new", hlib.Codec(cin))
	opt, _, err := hlib.Optimize(d.Patch, root+"/old", root+"/new", hlib.RediffOpts{
		Partitions: rt.Param("parts"), Concurrency: rt.Param("conc"), ForceMapAll: rt.Param("force") == 1, SizeLimit: int64(rt.Param("limit")), Compression: hlib.Codec(cout)})
	rt.Assert(err == nil, "the optimizer returns no error on a valid patch")
	if err != nil {
		return
	}
	rt.Assert(hlib.ApplyFresh(opt, root+"/old", root+"/out") == nil, "fresh apply of the optimized patch returns no error")
	hlib.AssertSame(hlib.Snapshot(root+"/out"), neu.Entries(), "optimized patch, fresh apply == new")
	old.Write(root + "/inplace")
	rt.Assert(hlib.ApplyInPlace(opt, root+"/inplace", root+"/stage") == nil, "in-place apply of the optimized patch returns no error")
	hlib.AssertSame(hlib.Snapshot(root+"/inplace"), neu.Entries(), "optimized patch, in-place apply == new")
	rt.Reach("end")
}

// H_moved: one optimizer run over two files where data moves from the larger old file into
// the smaller one (the differ reuses its buffers and suffix array from file to file).
// Concrete distinct contents (suffix sorting), one symbolic edit byte.
// Params: la, lb (old lengths), off, ln (the moved range of old A), pos (0: moved data first in
// new B, 1: after old B's content), parts.
func H_moved() {
	hlib.SetCopyBuf()
	la, lb := rt.Param("la"), rt.Param("lb")
	A, B := make([]byte, la), make([]byte, lb)
	for i := range A {
		A[i] = byte(i*7 + 3)
	}
	for i := range B {
		B[i] = byte(i*11 + 130)
	}
	moved := clone(A[rt.Param("off") : rt.Param("off")+rt.Param("ln")])
	NA := clone(A)
	NA[la/2] = rt.Byte("edit")
	var NB []byte
	if rt.Param("pos") == 0 {
		NB = append(moved, B...)
	} else {
		NB = append(clone(B), moved...)
	}
	old := &hlib.Build{Files: []hlib.File{{Path: "A", Data: A}, {Path: "B", Data: B}}}
	neu := &hlib.Build{Files: []hlib.File{{Path: "A", Data: NA}, {Path: "B", Data: NB}}}
	root := rt.TempDir()
	old.Write(root + "/old")
	neu.Write(root + "/new")
	d := hlib.Diff(root+"/old", root+"/new")
	opt, _, err := hlib.Optimize(d.Patch, root+"/old", root+"/new", hlib.RediffOpts{Partitions: rt.Param("parts"), ForceMapAll: true})
	rt.Assert(err == nil, "the optimizer returns no error on a valid patch")
	if err != nil {
		return
	}
	rt.Assert(hlib.ApplyFresh(opt, root+"/old", root+"/out") == nil, "fresh apply of the optimized patch returns no error")
	hlib.AssertSame(hlib.Snapshot(root+"/out"), neu.Entries(), "optimized patch, fresh apply == new")
	rt.Reach("end")
}
