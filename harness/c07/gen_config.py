#!/usr/bin/env python3
import json
def sc(b,mdo): return [{"set":"b%d"%b,"file":"pwr/constants.go","ident":"BlockSize","value":str(b)},
  {"set":"b%d"%b,"file":"wsync/algo.go","ident":"MaxDataOp","value":str(mdo)},
  {"set":"b%d"%b,"file":"wsync/algo.go","ident":"minBufferSize","func":"ApplySingleFull","value":str(max(1,b//2))},
  {"set":"b%d"%b,"file":"pwr/bowl/bowl_fresh.go","ident":"freshBufferSize","value":str(max(1,b//2))},
  {"set":"b%d"%b,"file":"pwr/bowl/bowl_pool.go","ident":"poolBufferSize","value":str(max(1,b//2))},
  {"set":"b%d"%b,"file":"pwr/overlay/overlay_writer.go","ident":"overlayBufSize","value":"8"},
  {"set":"b%d"%b,"file":"pwr/overlay/overlay_writer.go","ident":"overlaySameThreshold","value":"2"},
  {"set":"b%d"%b,"file":"bsdiff/diff.go","func":"Do","match":"128 * 1024","value":"4"},
  {"set":"b%d"%b,"file":"bsdiff/patch.go","func":"NewIndividualPatchContext","ident":"minBufferSize","value":"2"},
  {"set":"b%d"%b,"file":"bsdiff/patch.go","func":"NewIndividualPatchContext","ident":"lruChunkSize","value":"2"},
  {"set":"b%d"%b,"file":"bsdiff/patch.go","func":"NewIndividualPatchContext","ident":"lruNumEntries","value":"2"}]
scale=sc(2,5)
# set "w": the same with a bsdiff scan block of 64 bytes, so that matches longer than bsdiff's 8-byte threshold exist
scale+=[dict(r,set="w",value=("64" if r.get("match")=="128 * 1024" else "4" if r.get("ident")=="lruChunkSize" else r["value"])) for r in sc(2,5)]
Q=["quick","thorough"];T=["thorough"]
H=[{"name":"H_witness","tiers":Q,"expect":"violation","bounds":"vacuity witness"}]
def grid(sizes,shapes,parts,forces,limits,alpha):
    return [{"a":a,"b":b,"shape":s,"parts":p,"conc":0,"force":f,"limit":l,"alpha":alpha} for (a,b) in sizes for s in shapes for p in parts for f in forces for l in limits]
H.append({"name":"H_rediff","tiers":Q,"scale":"b2","bounds":"B=2, alphabet {0,1}: old files A (4), B (2 or 0); 5 shapes (edit, rename+insert, tiny new file + emptied file, concatenation mapped to another file + brand-new file, shrink/grow); partitions 0,1,3; ForceMapAll on/off; size limit 0 (default) or B",
  "param_sets":grid([(4,2),(3,0)],range(0,5),[0,1,3],[0,1],[0,2],2)})
H.append({"name":"H_rediff","tiers":Q,"scale":"b2","bounds":"compression WIRING with model codecs (header + XOR + trailer, registered through pwr.RegisterCompressor/Decompressor): every pair of input / output settings among none, gzip, brotli; 3 shapes; ForceMapAll",
  "param_sets":[dict(p,cin=ci,cout=co) for p in grid([(4,2)],[0,1,3],[1],[1],[0],2) for ci in (0,1,2) for co in (0,1,2) if (ci,co)!=(0,0)]})
H.append({"name":"H_moved","tiers":Q,"scale":"w","bounds":"two files optimized in one run, larger old file first (30 and 12 bytes, concrete distinct contents, one symbolic edit byte): 10 bytes of old A (from an offset beyond old B's size) moved into new B, before or after B's own content (new B still maps to old B); partitions 0 and 2; scan block 64, LRU chunk 4",
  "param_sets":[{"la":30,"lb":12,"off":o,"ln":10,"pos":q,"parts":p} for o in (13,16,19) for q in (0,1) for p in (0,2)]})
H.append({"name":"H_rediff","tiers":T,"scale":"b2","bounds":"B=2, alphabet {0,1,2}: A 0..4 with B in {0,3}, A 5 with B 0; all shapes (A 4 / B 3 / ForceMapAll only shapes 0-2); partitions 0, 1, 3, 8; default size limit","max_seconds":900,
  "param_sets":[p for p in grid([(a,b) for a in range(0,6) for b in (0,3) if not (a==5 and b==3)],range(0,5),[0,1,3,8],[0,1],[0],3) if not (p['a']==4 and p['b']==3 and p['force']==1 and p['shape']>=3)]})
json.dump({"property":"C07","package":"c07","scale":scale,"harnesses":H,
 "stubs":["os -> memfs, md5/protobuf models","ozzo validation -> 'required fields present'","deterministic goroutine schedule for bsdiff workers (schedules: C15)"],
 "outside":["the real gzip/brotli codecs (the wiring around them is covered with model codecs)","files > 6 bytes","suffix sort concurrency values other than 0 (the field is not read by the code under test)"]},open("config.json","w"),indent=1)
for h in H: print(h["name"],h["tiers"],h.get("scale"),len(h.get("param_sets",[1])))
