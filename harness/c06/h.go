// Package c06: healing from an archive restores any damaged directory to the signed build.
package c06

import (
	"context"
	"os"

	"github.com/itchio/wharf/archiver"
	"github.com/itchio/wharf/pwr"
	"github.com/itchio/wharf/zzverif/hlib"
	"github.com/itchio/wharf/zzverif/rt"
)

func H_witness() {
	a := rt.Byte("a")
	rt.Assert(a != 9, "witness")
	rt.Reach("end")
}

func writeZip(dir, archive string) {
	f, err := os.Create(archive)
	hlib.Must(err, "create archive")
	_, err = archiver.CompressZip(f, dir, hlib.Consumer)
	hlib.Must(err, "CompressZip")
	hlib.Must(f.Close(), "close archive")
}

// H_heal. The signed build: files f (nf bytes, symbolic), sub/g (B+1 bytes), sub/deep/h (empty),
// directories emptydir and sub/hollow (empty), symlinks lnk -> f and sub/lk -> g. Params: nf, damage:
//  0 none, 1 f content damaged (independent symbolic content of length na), 2 f deleted,
//  3 everything missing (target absent), 4 sub replaced by a regular file, 5 sub replaced by a
//  symlink to another directory holding valid files, 6 f replaced by a non-empty directory,
//  7 lnk retargeted, 8 lnk replaced by a directory, 9 emptydir replaced by a file,
//  10 sub/deep replaced by a file (nested dir hidden), 11 g emptied and h non-empty, 12-14 the empty file h replaced
//  by a non-empty directory / a symlink to g / a dangling symlink, 15 f replaced by a symlink to sub/g.
func H_heal() {
	hlib.SetCopyBuf()
	B := hlib.B()
	F := rt.Bytes("f", rt.Param("nf"))
	G := rt.Bytes("g", B+1)
	signed := &hlib.Build{Files: []hlib.File{{Path: "f", Data: F}, {Path: "sub/g", Data: G}, {Path: "sub/deep/h", Data: []byte{}}},
		Dirs: []string{"emptydir", "sub/hollow"}, Links: []hlib.Link{{Path: "lnk", Dest: "f"}, {Path: "sub/lk", Dest: "g"}}}
	root := rt.TempDir()
	signed.Write(root + "/s")
	sig := hlib.SigOf(root + "/s")
	archive := root + "/build.zip"
	writeZip(root+"/s", archive)

	dir := root + "/t"
	damage := rt.Param("damage")
	if damage != 3 {
		signed.Write(dir)
	}
	switch damage {
	case 1:
		hlib.Must(os.WriteFile(dir+"/f", rt.Bytes("damaged", rt.Param("na")), 0o644), "damage f")
	case 2:
		hlib.Must(os.Remove(dir+"/f"), "rm f")
	case 4:
		hlib.Must(os.RemoveAll(dir+"/sub"), "rm sub")
		hlib.Must(os.WriteFile(dir+"/sub", []byte{1}, 0o644), "file instead of dir")
	case 5:
		hlib.Must(os.Rename(dir+"/sub", dir+"/elsewhere"), "move sub")
		hlib.Must(os.Symlink("elsewhere", dir+"/sub"), "symlink instead of dir")
	case 6:
		hlib.Must(os.Remove(dir+"/f"), "rm f")
		hlib.Must(os.MkdirAll(dir+"/f/x", 0o755), "dir instead of file")
		hlib.Must(os.WriteFile(dir+"/f/x/y", []byte{2}, 0o644), "content")
	case 7:
		hlib.Must(os.Remove(dir+"/lnk"), "rm lnk")
		hlib.Must(os.Symlink("sub/g", dir+"/lnk"), "retarget")
	case 8:
		hlib.Must(os.Remove(dir+"/lnk"), "rm lnk")
		hlib.Must(os.MkdirAll(dir+"/lnk/z", 0o755), "dir instead of symlink")
	case 9:
		hlib.Must(os.Remove(dir+"/emptydir"), "rm dir")
		hlib.Must(os.WriteFile(dir+"/emptydir", []byte{3}, 0o644), "file instead of dir")
	case 10:
		hlib.Must(os.RemoveAll(dir+"/sub/deep"), "rm deep")
		hlib.Must(os.WriteFile(dir+"/sub/deep", []byte{4}, 0o644), "file instead of nested dir")
	case 11:
		hlib.Must(os.WriteFile(dir+"/sub/g", []byte{}, 0o644), "empty g")
		hlib.Must(os.WriteFile(dir+"/sub/deep/h", []byte{5, 6}, 0o644), "non-empty h")
	case 12: // the empty file replaced by a non-empty directory
		hlib.Must(os.Remove(dir+"/sub/deep/h"), "rm h")
		hlib.Must(os.MkdirAll(dir+"/sub/deep/h/x", 0o755), "dir instead of empty file")
		hlib.Must(os.WriteFile(dir+"/sub/deep/h/x/y", []byte{2}, 0o644), "content")
	case 13: // the empty file replaced by a symlink to another file of the build
		hlib.Must(os.Remove(dir+"/sub/deep/h"), "rm h")
		hlib.Must(os.Symlink("../g", dir+"/sub/deep/h"), "symlink instead of empty file")
	case 14: // the empty file replaced by a dangling symlink
		hlib.Must(os.Remove(dir+"/sub/deep/h"), "rm h")
		hlib.Must(os.Symlink("ghost", dir+"/sub/deep/h"), "dangling symlink instead of empty file")
	case 15: // f replaced by a symlink to another file of the build
		hlib.Must(os.Remove(dir+"/f"), "rm f")
		hlib.Must(os.Symlink("sub/g", dir+"/f"), "symlink instead of file")
	}
	var before []hlib.Entry
	if damage == 0 {
		before = hlib.Snapshot(dir)
	}
	vctx := &pwr.ValidatorContext{HealPath: "archive," + archive, Consumer: hlib.Consumer}
	err := vctx.Validate(context.Background(), dir, sig) // deadlocks are reported by the engine
	rt.Assert(err == nil, "validation with healing terminates without error")
	// every entry of the build is present with exactly the signed content
	got := hlib.Snapshot(dir)
	want := signed.Entries()
	for _, w := range want {
		var e *hlib.Entry
		for i := range got {
			if got[i].Path == w.Path {
				e = &got[i]
			}
		}
		rt.Assert(e != nil && e.Kind == w.Kind, "every entry of the build is present with the right kind after healing")
		if e == nil || e.Kind != w.Kind {
			continue
		}
		switch w.Kind {
		case 'f':
			rt.Assert(rt.BytesEqual(e.Data, w.Data), "every file has exactly the signed content after healing")
		case 'l':
			rt.Assert(e.Dest == w.Dest, "every symlink has the signed destination after healing")
		}
	}
	rt.Assert(pwr.AssertValid(dir, sig) == nil, "fail-fast validation passes after healing")
	if damage == 0 {
		hlib.AssertSame(hlib.Snapshot(dir), before, "healing a valid directory changes nothing")
	}
	rt.Reach("end")
}
