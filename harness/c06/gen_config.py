#!/usr/bin/env python3
import json
scale=[{"set":"b2","file":"pwr/constants.go","ident":"BlockSize","value":"2"},
       {"set":"b2","file":"pwr/validator.go","ident":"MaxWoundSize","value":"4"},
       {"set":"b2","file":"pwr/validator.go","func":"Validate","match":"1024","value":"2"}]
Q=["quick","thorough"];T=["thorough"]
H=[{"name":"H_witness","tiers":Q,"expect":"violation","bounds":"vacuity witness"}]
dmg=[0,2,3,4,6,7,8,9,10,11,12,13,14,15]
H.append({"name":"H_heal","tiers":Q,"scale":"b2","preemptions":0,"bounds":"B=2: build of 3 files (symbolic contents; one nested, one empty), empty dir, symlink; 16 damage shapes incl. kind swaps hiding subtrees and kind swaps of the empty file; canonical schedule",
  "param_sets":[{"nf":3,"na":0,"damage":d} for d in dmg+[5]]+[{"nf":3,"na":a,"damage":1} for a in (0,2,3,4)]})
H.append({"name":"H_heal","tiers":Q,"scale":"b2","preemptions":1,"bounds":"the same damage shapes under every schedule of validator / wound consumer / heal worker goroutines with at most 1 preemption (file-system calls are scheduling points)",
  "param_sets":[{"nf":2,"na":0,"damage":d,"policy":p} for d in (0,2,4,6,8,10,12,13) for p in (0,1)]})
H.append({"name":"H_heal","tiers":Q,"scale":"b2","preemptions":1,"novalidate":True,"bounds":"a directory replaced by a symlink to a directory holding valid files (damage 5), three default scheduling policies, at most 1 preemption (natively schedule-dependent: excluded from translator validation)",
  "param_sets":[{"nf":2,"na":0,"damage":5,"policy":p} for p in (0,1,2)]})
H.append({"name":"H_heal","tiers":T,"scale":"b2","preemptions":1,"bounds":"every damage shape, nf in {2,3}, three default policies, at most 1 preemption (2 preemptions exceed any per-instance budget here: stated, not run)","max_seconds":900,
  "param_sets":[{"nf":n,"na":0,"damage":d,"policy":p} for n in (2,3) for d in dmg+[5] for p in (0,1,2)]+[{"nf":3,"na":a,"damage":1,"policy":p} for a in range(0,7) for p in (0,1)]})
json.dump({"property":"C06","package":"c06","models":["modelzip"],"scale":scale,"harnesses":H,
 "stubs":["os -> memfs","arkive/zip -> lossless container of (header, bytes) entries; zip/deflate formats not modelled","eos.Open -> local files only","md5/protobuf models","cooperative preemption-bounded scheduler"],
 "outside":["remote archives, real zip decoding","LockMap users","schedules beyond the preemption bound"]},open("config.json","w"),indent=1)
for h in H: print(h["name"],h["tiers"],h.get("scale"),len(h.get("param_sets",[1])))
