#!/usr/bin/env python3
import json
exec(open('../c07/gen_config.py').read().split('Q=["quick"')[0])  # reuse sc()
scale=sc(2,3)
Q=["quick","thorough"];T=["thorough"]
ALWAYS=1<<30
H=[{"name":"H_witness","tiers":Q,"expect":"violation","bounds":"vacuity witness"}]
def grid(shapes,bowls,opts,keeps,lags,patterns,truncs):
    return [{"shape":s,"bowl":b,"opt":o,"keep":k,"lag":l,"pattern":p,"trunc":t} for s in shapes for b in bowls for o in opts for k in keeps for l in lags for p in patterns for t in truncs]
H.append({"name":"H_resume","tiers":Q,"scale":"b2","bounds":"B=2, MaxDataOp=3: two build pairs (insertion in a 9-byte file; copy + patched + brand-new files); fresh and overlay bowls; rsync series; every checkpoint index 0..7 offered with ShouldSave always true; interruption 0..2 checkpoints later; in-progress output cut back to every length >= the checkpointed offset (fresh bowl)",
  "param_sets":grid([0,1],[0,1],[0],range(0,8),[0,2],[ALWAYS],[1])})
H.append({"name":"H_resume","tiers":Q,"scale":"b2","bounds":"a region of the old file that moves forward by exactly the size of the fresh bytes before it (new[n+x] == old[x]): two sizes, fresh and overlay bowls, checkpoints 0..5, lag 0",
  "param_sets":grid([2,3],[0,1],[0],range(0,6),[0],[ALWAYS],[1])})
H.append({"name":"H_resume","tiers":Q,"scale":"b2","bounds":"a build pair with every kind of bowl bookkeeping (rename, duplication, in-place patch, brand-new file, deleted file, dirs and symlink added/removed): fresh and overlay bowls, checkpoints 0..7, lag 0/1",
  "param_sets":grid([4],[0,1],[0],range(0,8),[0,1],[ALWAYS],[1])})
H.append({"name":"H_resume","tiers":Q,"scale":"b2","bounds":"optimized patches (bsdiff series; concrete distinct contents), fresh and overlay bowls, checkpoints 0..4, lag 0..1",
  "param_sets":grid([10,11],[0,1],[1],range(0,5),[0,1],[ALWAYS],[0])})
H.append({"name":"H_resume","tiers":Q,"scale":"b2","bounds":"chains of two interruptions: the run resumed from checkpoint keep is itself stopped at its keep2-th checkpoint and a third process finishes; rsync (symbolic) and bsdiff (concrete) series, fresh and overlay bowls",
  "param_sets":[dict(x,keep2=k2) for x in grid([0,1],[0,1],[0],[0,2,4],[0,1],[ALWAYS],[0]) for k2 in (0,1,3)]+[dict(x,keep2=k2) for x in grid([10,11],[0,1],[1],[0,2],[0],[ALWAYS],[0]) for k2 in (0,2)]})
H.append({"name":"H_resume","tiers":Q,"scale":"b2","bounds":"patches written through the model codecs: the checkpoint then carries the decompressing source's own (gob-registered, nested) checkpoint; rsync and bsdiff series, fresh and overlay bowls, checkpoints 0..5, lag 0/1",
  "param_sets":[dict(x,comp=c) for x in grid([0,1],[0,1],[0],range(0,6),[0,1],[ALWAYS],[0]) for c in (1,2)]+[dict(x,comp=1) for x in grid([10],[0,1],[1],range(0,4),[0],[ALWAYS],[0])]})
H.append({"name":"H_resume","tiers":T,"scale":"b2","bounds":"all of the above with lag 0..4, sparse save schedules (patterns 0b0101.., 0b0011.., 0b1000..), optimized patches for both shapes","max_seconds":1500,
  "param_sets":grid([0,1],[0,1],[0],range(0,10),[0,1,2,4],[ALWAYS,0x55555555&0x3fffffff,0x33333333&0x3fffffff,0x8],[1])+grid([10,11],[0,1],[1],range(0,10),[0,1,2,4],[ALWAYS,0x55555555&0x3fffffff,0x8],[1])})
json.dump({"property":"C03","package":"c03","scale":scale,"harnesses":H,
 "stubs":["os -> memfs, md5/protobuf models","encoding/gob -> deep copy of exported fields with the registered-type check","interruption = the consumer stops the patcher k+lag checkpoints in, then the in-progress output is truncated (the property's own interruption model)"],
 "outside":["real gzip/brotli checkpoint formats (codecs not encodable; a model codec with its own nested checkpoint stands in)","chains of more than two interruptions","power-loss reordering of writes","crashes inside Commit"]},open("config.json","w"),indent=1)
for h in H: print(h["name"],h["tiers"],h.get("scale"),len(h.get("param_sets",[1])))
