// Package c03: interrupted patch application resumes from any checkpoint to the same result.
package c03

import (
	"os"
	"path/filepath"

	"github.com/itchio/lake/pools/fspool"
	"github.com/itchio/savior/seeksource"
	"github.com/itchio/wharf/pwr/bowl"
	"github.com/itchio/wharf/pwr/patcher"
	"github.com/itchio/wharf/zzverif/hlib"
	"github.com/itchio/wharf/zzverif/rt"
)

func H_witness() {
	a := rt.Byte("a")
	rt.Assert(a != 9, "witness")
	rt.Reach("end")
}

func clone(b []byte) []byte { return append([]byte{}, b...) }

var concrete bool
var counter int

// bytesOf gives n fresh symbolic bytes, or n distinct concrete ones in concrete mode.
func bytesOf(label string, n int) []byte {
	if !concrete {
		return rt.Bytes(label, n)
	}
	out := make([]byte, n)
	for i := range out {
		counter++
		out[i] = byte(counter*7 + 3)
	}
	return out
}

func distinct(bs ...[]byte) {
	if !concrete {
		hlib.DistinctSyms(bs...)
	}
}

// saver keeps a serialized copy of checkpoint number `keep` and stops the patcher
// `lag` checkpoints later (so that writes made after the kept checkpoint are on disk).
type saver struct {
	pattern   int // bit i set: the i-th ShouldSave call answers true (bit 30 set: always)
	asked     int
	saves     int
	keep, lag int
	kept      *patcher.Checkpoint
}

func (s *saver) ShouldSave() bool {
	i := s.asked
	s.asked++
	if s.pattern&(1<<30) != 0 {
		return true
	}
	return i < 30 && s.pattern&(1<<i) != 0
}

func (s *saver) Save(c *patcher.Checkpoint) (patcher.AfterSaveAction, error) {
	n := s.saves
	s.saves++
	if n == s.keep {
		s.kept = &patcher.Checkpoint{}
		hlib.Must(rt.CloneViaGob(s.kept, c), "checkpoint survives gob")
	}
	if s.kept != nil && n >= s.keep+s.lag {
		return patcher.AfterSaveStop, nil
	}
	return patcher.AfterSaveContinue, nil
}

type bowlMaker func(p patcher.Patcher, dir, stage string) (bowl.Bowl, error)

func freshBowl(p patcher.Patcher, dir, stage string) (bowl.Bowl, error) {
	// dir = old build, stage = output folder
	return bowl.NewFreshBowl(bowl.FreshBowlParams{SourceContainer: p.GetSourceContainer(), TargetContainer: p.GetTargetContainer(),
		TargetPool: fspool.New(p.GetTargetContainer(), dir), OutputFolder: stage})
}

func overlayBowl(p patcher.Patcher, dir, stage string) (bowl.Bowl, error) {
	return bowl.NewOverlayBowl(bowl.OverlayBowlParams{SourceContainer: p.GetSourceContainer(), TargetContainer: p.GetTargetContainer(),
		OutputFolder: dir, StageFolder: stage})
}

// pairFor builds the (old, new) pair of shape `shape`.
func pairFor(shape int) (*hlib.Build, *hlib.Build) {
	B := hlib.B()
	if shape >= 10 {
		// same shapes over concrete contents (for optimized patches: suffix sorting needs concrete bytes)
		concrete = true
		shape -= 10
	}
	switch shape {
	case 0: // one file: two bytes inserted in the middle, several ops and data splitting
		O := bytesOf("old", 6*B+1)
		N := append(append(clone(O[:B+1]), bytesOf("ins", 2)...), O[B+1:3*B+1]...)
		N = append(append(N, bytesOf("ins2", 1)...), O[3*B+1:]...)
		distinct(O, N)
		return &hlib.Build{Files: []hlib.File{{Path: "f", Data: O}}}, &hlib.Build{Files: []hlib.File{{Path: "f", Data: N}}}
	case 1: // two files: one unchanged (whole-file copy), one with a fresh tail; plus a brand-new file
		O1, O2 := bytesOf("o1", 2*B), bytesOf("o2", 2*B+1)
		N2 := append(clone(O2), bytesOf("tail", B+1)...)
		F := bytesOf("fresh", 2*B+1)
		distinct(O1, N2, F)
		return &hlib.Build{Files: []hlib.File{{Path: "a", Data: O1}, {Path: "b", Data: O2}}},
			&hlib.Build{Files: []hlib.File{{Path: "a", Data: clone(O1)}, {Path: "b", Data: N2}, {Path: "c", Data: F}}}
	case 2: // the first half of the old file reappears as the second half of the new one, behind fresh bytes:
		// new[n+x] == old[x] while old[n+x] differs (a region that moved by exactly the size of what precedes it)
		X, Y, Z := bytesOf("x", 2*B), bytesOf("y", 2*B), bytesOf("z", 2*B)
		distinct(X, Y, Z)
		return &hlib.Build{Files: []hlib.File{{Path: "f", Data: append(clone(X), Y...)}}},
			&hlib.Build{Files: []hlib.File{{Path: "f", Data: append(clone(Z), X...)}}}
	case 4: // every kind of bowl bookkeeping at once: a renamed file (transposition) and a duplicated one before the file
		// being patched when the interruption comes, a brand-new file after it, a deleted file, a directory and a
		// symlink added, a directory removed
		R, D, P, G := bytesOf("r", 2*B), bytesOf("d", B+1), bytesOf("p", 3*B), bytesOf("g", B)
		NP := append(append(clone(P[:B]), bytesOf("ins", 2)...), P[B:]...)
		F := bytesOf("fresh", 2*B+1)
		distinct(R, D, P, G, NP, F)
		return &hlib.Build{Files: []hlib.File{{Path: "a-renamed-from", Data: R}, {Path: "b-dup", Data: D}, {Path: "gone", Data: G}, {Path: "p", Data: P}}, Dirs: []string{"olddir"}},
			&hlib.Build{Files: []hlib.File{{Path: "a-renamed-to", Data: clone(R)}, {Path: "b-dup", Data: clone(D)}, {Path: "b-dup2", Data: clone(D)}, {Path: "p", Data: NP}, {Path: "z-new", Data: F}},
				Dirs: []string{"newdir/sub"}, Links: []hlib.Link{{Path: "lnk", Dest: "p"}}}
	case 3: // the same with a longer moved region and an unchanged head
		H, X, Y, Z := bytesOf("h", B), bytesOf("x", 3*B), bytesOf("y", 3*B), bytesOf("z", 3*B)
		distinct(H, X, Y, Z)
		return &hlib.Build{Files: []hlib.File{{Path: "f", Data: append(append(clone(H), X...), Y...)}}},
			&hlib.Build{Files: []hlib.File{{Path: "f", Data: append(append(clone(H), Z...), X...)}}}
	}
	return nil, nil
}

// H_resume. Params: shape, bowl (0 fresh, 1 overlay), opt (1 optimized patch), keep (checkpoint
// index k), lag (further checkpoints reached before the interruption), pattern (ShouldSave
// answers; bit 30 = always), trunc (1: the in-progress output is cut back to any length >= the
// checkpointed offset).
func H_resume() {
	hlib.SetCopyBuf()
	old, neu := pairFor(rt.Param("shape"))
	root := rt.TempDir()
	old.Write(root + "/old")
	neu.Write(root + "/new")
	d := hlib.Diff(root+"/old", root+"/new")
	patch := d.Patch
	if rt.Param("opt") == 1 {
		opt, _, err := hlib.Optimize(patch, root+"/old", root+"/new", hlib.RediffOpts{ForceMapAll: true})
		hlib.Must(err, "optimize")
		patch = opt
	}
	mk, dir, stage := bowlMaker(freshBowl), root+"/old", root+"/out"
	if rt.Param("bowl") == 1 {
		mk, dir, stage = overlayBowl, root+"/install", root+"/stage"
		old.Write(dir)
	}

	// interrupted run
	sv := &saver{pattern: rt.Param("pattern"), keep: rt.Param("keep"), lag: rt.Param("lag")}
	p, err := patcher.New(seeksource.FromBytes(patch), hlib.Consumer)
	hlib.Must(err, "patcher.New")
	p.SetSaveConsumer(sv)
	bw, err := mk(p, dir, stage)
	hlib.Must(err, "bowl")
	rerr := p.Resume(nil, fspool.New(p.GetTargetContainer(), dir), bw)
	if sv.pattern&(1<<30) != 0 && rt.Param("keep") == 0 {
		rt.Assert(sv.saves > 0, "a consumer that always asks to save is eventually given checkpoints")
	}
	if sv.kept == nil {
		// checkpoint number `keep` was never offered: nothing to resume from
		rt.Assert(rerr == nil, "uninterrupted application returns no error")
		rt.Reach("end")
		return
	}
	rt.Reach("checkpoint-kept")
	if rerr == nil {
		// the run finished before the interruption point was reached; resuming from the kept
		// checkpoint over the completed state must still give the same result
		rt.Tag("interruption", "after-completion")
	}

	// the crash may have lost part of what was written after the checkpoint
	if rt.Param("trunc") == 1 && rt.Param("bowl") == 0 && sv.kept.RsyncCheckpoint != nil && sv.kept.RsyncCheckpoint.WriterCheckpoint != nil {
		f := p.GetSourceContainer().Files[sv.kept.FileIndex]
		path := filepath.Join(stage, filepath.FromSlash(f.Path))
		if st, err := os.Stat(path); err == nil {
			off := sv.kept.RsyncCheckpoint.WriterCheckpoint.Offset
			if st.Size() > off {
				rt.Reach("truncation-explored")
				cut := off + int64(rt.Choice("truncate-to", int(st.Size()-off)+1))
				hlib.Must(os.Truncate(path, cut), "truncate in-progress output")
			}
		}
	}

	from := sv.kept
	if rt.HasParam("keep2") {
		// a second interruption: the resumed run is itself stopped at its keep2-th checkpoint
		// (checkpoints are counted from the resume), and a third process finishes the job
		sv2 := &saver{pattern: rt.Param("pattern"), keep: rt.Param("keep2"), lag: 0}
		pm, err := patcher.New(seeksource.FromBytes(patch), hlib.Consumer)
		hlib.Must(err, "patcher.New (first resume)")
		pm.SetSaveConsumer(sv2)
		bwm, err := mk(pm, dir, stage)
		hlib.Must(err, "bowl (first resume)")
		// (each process decodes its own copy of the persisted checkpoint)
		mine := &patcher.Checkpoint{}
		hlib.Must(rt.CloneViaGob(mine, from), "checkpoint survives gob (first resume)")
		merr := pm.Resume(mine, fspool.New(pm.GetTargetContainer(), dir), bwm)
		if sv2.kept != nil {
			rt.Reach("second-checkpoint-kept")
			from = sv2.kept
		} else {
			rt.Assert(merr == nil, "the resumed run, never interrupted again, returns no error")
		}
	}

	// resume in a brand-new patcher, pool and bowl from the serialized checkpoint
	p2, err := patcher.New(seeksource.FromBytes(patch), hlib.Consumer)
	hlib.Must(err, "patcher.New (resume)")
	bw2, err := mk(p2, dir, stage)
	hlib.Must(err, "bowl (resume)")
	rt.Assert(p2.Resume(from, fspool.New(p2.GetTargetContainer(), dir), bw2) == nil, "resuming from the checkpoint completes successfully")
	rt.Assert(bw2.Commit() == nil, "commit after resume")
	result := stage
	if rt.Param("bowl") == 1 {
		result = dir
	}
	hlib.AssertSame(hlib.Snapshot(result), neu.Entries(), "resumed application produces exactly what an uninterrupted one produces")
	rt.Reach("end")
}
