// Package c02: in-place apply equals fresh apply and leaves the old build intact until commit.
package c02

import (
	"github.com/itchio/lake/pools/fspool"
	"github.com/itchio/savior/seeksource"
	"github.com/itchio/wharf/pwr/bowl"
	"github.com/itchio/wharf/pwr/patcher"
	"github.com/itchio/wharf/zzverif/hlib"
	"github.com/itchio/wharf/zzverif/rt"
)

func H_witness() {
	a := rt.Byte("a")
	rt.Assert(a != 9, "witness")
	rt.Reach("end")
}

func clone(b []byte) []byte { return append([]byte{}, b...) }

// newBuild derives the new build from the old contents according to shape.
func newBuild(shape int, A, B, C []byte) (*hlib.Build, bool) {
	Bs := hlib.B()
	base := func() *hlib.Build {
		return &hlib.Build{Files: []hlib.File{{Path: "A", Data: clone(A)}, {Path: "B", Data: clone(B)}, {Path: "sub/C", Data: clone(C)}},
			Dirs: []string{"dd"}, Links: []hlib.Link{{Path: "ln", Dest: "A"}}}
	}
	n := base()
	switch shape {
	case 0: // unchanged
	case 1: // A patched
		if len(A) == 0 {
			return nil, false
		}
		n.Files[0].Data[len(A)/2] = rt.Byte("edit")
	case 2: // A renamed
		n.Files[0].Path = "A2"
	case 3: // swap A <-> B
		n.Files[0].Data, n.Files[1].Data = clone(B), clone(A)
	case 4: // chain A -> B, B -> sub/C (old C gone, A gone)
		n.Files = []hlib.File{{Path: "B", Data: clone(A)}, {Path: "sub/C", Data: clone(B)}}
	case 5: // A duplicated to two more paths, original kept
		n.Files = append(n.Files, hlib.File{Path: "X", Data: clone(A)}, hlib.File{Path: "sub/Y", Data: clone(A)})
	case 6: // A duplicated to two paths, original removed
		n.Files = []hlib.File{{Path: "X", Data: clone(A)}, {Path: "sub/Y", Data: clone(A)}, {Path: "B", Data: clone(B)}, {Path: "sub/C", Data: clone(C)}}
	case 7: // A patched and also the source of a rename
		if len(A) == 0 {
			return nil, false
		}
		n.Files[0].Data[0] = rt.Byte("edit")
		n.Files = append(n.Files, hlib.File{Path: "Z", Data: clone(A)})
	case 8: // A grows, B shrinks to a block-aligned prefix, C becomes empty
		if len(B) <= Bs {
			return nil, false
		}
		n.Files[0].Data = append(n.Files[0].Data, rt.Bytes("grow", 2)...)
		n.Files[1].Data = clone(B[:Bs])
		n.Files[2].Data = []byte{}
	case 9: // directory deleted, another added
		n.Dirs = []string{"ee/ff"}
	case 10: // symlink removed
		n.Links = nil
	case 11: // symlink retargeted
		n.Links = []hlib.Link{{Path: "ln", Dest: "B"}}
	case 12: // symlink added
		n.Links = append(n.Links, hlib.Link{Path: "sub/ln2", Dest: "C"})
	case 13: // everything deleted
		n = &hlib.Build{}
	case 14: // rename chain A -> B -> sub/C -> A (rotation)
		n.Files[0].Data, n.Files[1].Data, n.Files[2].Data = clone(C), clone(A), clone(B)
	case 15: // A renamed into a new directory, B patched, C duplicated over the old dir name
		if len(B) == 0 {
			return nil, false
		}
		n.Files = []hlib.File{{Path: "newdir/A", Data: clone(A)}, {Path: "B", Data: clone(B)}, {Path: "sub/C", Data: clone(C)}, {Path: "sub/C2", Data: clone(C)}}
		n.Files[1].Data[len(B)-1] = rt.Byte("edit")
	case 16: // A kept and duplicated onto the existing path B, while old B is renamed elsewhere
		n.Files = []hlib.File{{Path: "A", Data: clone(A)}, {Path: "B", Data: clone(A)}, {Path: "moved-B", Data: clone(B)}, {Path: "sub/C", Data: clone(C)}}
	case 17: // B kept and duplicated onto A and sub/C, old A renamed, old C renamed
		n.Files = []hlib.File{{Path: "A", Data: clone(B)}, {Path: "B", Data: clone(B)}, {Path: "sub/C", Data: clone(B)}, {Path: "zA", Data: clone(A)}, {Path: "zC", Data: clone(C)}}
	case 18: // A duplicated onto B (original removed), B renamed onto sub/C, C deleted
		n.Files = []hlib.File{{Path: "B", Data: clone(A)}, {Path: "B2", Data: clone(A)}, {Path: "sub/C", Data: clone(B)}}
	case 19: // A patched in place and also duplicated to two other paths (a group of copies from a file with a pending overlay)
		if len(A) == 0 {
			return nil, false
		}
		n.Files[0].Data[0] = rt.Byte("edit")
		n.Files = append(n.Files, hlib.File{Path: "X", Data: clone(A)}, hlib.File{Path: "sub/Y", Data: clone(A)})
	case 32: // A kept and duplicated onto the existing path B, whose (longer) old content is simply dropped
		n.Files = []hlib.File{{Path: "A", Data: clone(A)}, {Path: "B", Data: clone(A)}, {Path: "sub/C", Data: clone(C)}}
	case 33: // sub/C (shorter) duplicated onto both A and B, originals dropped
		n.Files = []hlib.File{{Path: "A", Data: clone(C)}, {Path: "B", Data: clone(C)}, {Path: "sub/C", Data: clone(C)}}
	// kind swaps
	case 20: // file A becomes a directory holding the old content
		n.Files[0].Path = "A/inner"
		n.Links = nil
	case 21: // directory dd becomes a file
		n.Dirs = nil
		n.Files = append(n.Files, hlib.File{Path: "dd", Data: rt.Bytes("fresh", 2)})
	case 22: // A renamed to A2 with a symlink A -> A2 left in its place
		n.Files[0].Path = "A2"
		n.Links = []hlib.Link{{Path: "A", Dest: "A2"}}
	case 23: // symlink ln becomes a regular file
		n.Links = nil
		n.Files = append(n.Files, hlib.File{Path: "ln", Data: clone(B)})
	// old build variant with a symlink to a directory (cur -> sub); see oldBuild
	case 24: // symlink-to-directory becomes a real directory holding a copy of C; sub kept
		n.Files = append(n.Files, hlib.File{Path: "cur/C", Data: clone(C)})
	case 25: // symlink-to-directory becomes a real directory, C moves into it, sub disappears
		n.Files[2].Path = "cur/C"
	case 26: // symlink-to-directory becomes a real, empty directory
		n.Dirs = append(n.Dirs, "cur")
	// non-empty directory changes kind
	case 27: // directory sub becomes a file, its content deleted
		n.Files[2] = hlib.File{Path: "sub", Data: rt.Bytes("fresh", 2)}
	case 28: // directory sub becomes a file, its content moved elsewhere
		n.Files[2].Path = "C2"
		n.Files = append(n.Files, hlib.File{Path: "sub", Data: rt.Bytes("fresh", 2)})
	case 29: // directory sub becomes a symlink, its content deleted
		n.Files = n.Files[:2]
		n.Links = append(n.Links, hlib.Link{Path: "sub", Dest: "dd"})
	case 30: // directory sub becomes a symlink, its content moved elsewhere
		n.Files[2].Path = "C2"
		n.Links = append(n.Links, hlib.Link{Path: "sub", Dest: "dd"})
	case 31: // directory sub becomes a symlink to the renamed directory holding its content
		n.Files[2].Path = "sub2/C"
		n.Links = append(n.Links, hlib.Link{Path: "sub", Dest: "sub2"})
	// old build variant with content two levels below a directory (deep/x/D); see oldBuild
	case 34: // deep becomes a symlink to the renamed directory that holds its unchanged content
		n.Files = append(n.Files, hlib.File{Path: "deep2/x/D", Data: clone(C)})
		n.Links = append(n.Links, hlib.Link{Path: "deep", Dest: "deep2"})
	case 35: // the same with the nested file's content replaced
		n.Files = append(n.Files, hlib.File{Path: "deep2/x/D", Data: rt.Bytes("newD", 3)})
		n.Links = append(n.Links, hlib.Link{Path: "deep", Dest: "deep2"})
	case 36: // deep becomes a file, its nested content moves elsewhere
		n.Files = append(n.Files, hlib.File{Path: "D2", Data: clone(C)}, hlib.File{Path: "deep", Data: rt.Bytes("fresh", 2)})
	case 37: // deep becomes a symlink to an existing directory, its nested content moves to the top level
		n.Files = append(n.Files, hlib.File{Path: "D2", Data: clone(C)})
		n.Links = append(n.Links, hlib.Link{Path: "deep", Dest: "dd"})
	default:
		return nil, false
	}
	return n, true
}

// oldBuild is the fixed old build; shapes 24..26 add a symlink to a directory.
func oldBuild(shape int, A, B, C []byte) *hlib.Build {
	old := &hlib.Build{Files: []hlib.File{{Path: "A", Data: A}, {Path: "B", Data: B}, {Path: "sub/C", Data: C}}, Dirs: []string{"dd"}, Links: []hlib.Link{{Path: "ln", Dest: "A"}}}
	if shape >= 24 && shape <= 26 {
		old.Links = append(old.Links, hlib.Link{Path: "cur", Dest: "sub"})
	}
	if shape >= 34 && shape <= 37 {
		// (same bytes as C: the generic-position assumption then lets it be the very same symbols)
		old.Files = append(old.Files, hlib.File{Path: "deep/x/D", Data: clone(C)})
	}
	return old
}

// H_inplace. Params: a, b, c (old file lengths), shape, orders (1 = explore every
// iteration order of the maps visited during Commit).
func H_inplace() {
	hlib.SetCopyBuf()
	A, B, C := rt.Bytes("A", rt.Param("a")), rt.Bytes("B", rt.Param("b")), rt.Bytes("C", rt.Param("c"))
	shape := rt.Param("shape")
	if shape >= 20 {
		rt.Tag("class", "kind-swap")
	}
	old := oldBuild(shape, A, B, C)
	neu, ok := newBuild(shape, A, B, C)
	if !ok {
		rt.Reach("end")
		return
	}
	var all [][]byte
	all = append(all, A, B, C)
	for _, f := range neu.Files {
		all = append(all, f.Data)
	}
	hlib.DistinctSyms(all...)

	root := rt.TempDir()
	old.Write(root + "/old")
	neu.Write(root + "/new")
	d := hlib.Diff(root+"/old", root+"/new")

	// in-place: the build directory is a pristine copy of old
	dir := root + "/install"
	old.Write(dir)
	p, err := patcher.New(seeksource.FromBytes(d.Patch), hlib.Consumer)
	hlib.Must(err, "patcher.New")
	targetPool := fspool.New(p.GetTargetContainer(), dir)
	bw, err := bowl.NewOverlayBowl(bowl.OverlayBowlParams{SourceContainer: p.GetSourceContainer(), TargetContainer: p.GetTargetContainer(),
		OutputFolder: dir, StageFolder: root + "/stage"})
	hlib.Must(err, "NewOverlayBowl")
	rt.Assert(p.Resume(nil, targetPool, bw) == nil, "patching into the stage folder returns no error")
	hlib.AssertSame(hlib.Snapshot(dir), old.Entries(), "old build untouched until commit")
	if rt.Param("orders") == 1 {
		rt.MapOrder(1)
	}
	cerr := bw.Commit()
	rt.MapOrder(0)
	rt.Assert(cerr == nil, "commit returns no error")
	hlib.AssertSame(hlib.Snapshot(dir), neu.Entries(), "after commit the directory equals the new build")

	// fresh application of the same patch gives the same tree
	rt.Assert(hlib.ApplyFresh(d.Patch, root+"/old", root+"/fresh") == nil, "fresh apply returns no error")
	hlib.AssertSame(hlib.Snapshot(root+"/fresh"), neu.Entries(), "fresh apply equals the new build")
	rt.Reach("end")
}
