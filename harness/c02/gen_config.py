#!/usr/bin/env python3
import json
def sc(b,mdo): return [{"set":"b%d"%b,"file":"pwr/constants.go","ident":"BlockSize","value":str(b)},
  {"set":"b%d"%b,"file":"wsync/algo.go","ident":"MaxDataOp","value":str(mdo)},
  {"set":"b%d"%b,"file":"wsync/algo.go","ident":"minBufferSize","func":"ApplySingleFull","value":str(max(1,b//2))},
  {"set":"b%d"%b,"file":"pwr/bowl/bowl_fresh.go","ident":"freshBufferSize","value":str(max(1,b//2))},
  {"set":"b%d"%b,"file":"pwr/bowl/bowl_pool.go","ident":"poolBufferSize","value":str(max(1,b//2))},
  {"set":"b%d"%b,"file":"pwr/overlay/overlay_writer.go","ident":"overlayBufSize","value":"8"},
  {"set":"b%d"%b,"file":"pwr/overlay/overlay_writer.go","ident":"overlaySameThreshold","value":"2"}]
scale=sc(2,5)+sc(4,8)
Q=["quick","thorough"];T=["thorough"]
shapes=list(range(0,20))+[32,33]; swaps=[20,21,22,23,24,25,26,27,28,29,30,31]; deep=[34,35,36,37]
H=[{"name":"H_witness","tiers":Q,"expect":"violation","bounds":"vacuity witness"}]
H.append({"name":"H_inplace","tiers":Q,"scale":"b2","bounds":"B=2; old build: files A (3), B (5), sub/C (2), dir, symlink; 22 path-level relations (unchanged, patched, renamed, swap, chains, rotation, 1->2 and 1->3 duplication with/without the original, patched+renamed, kept+duplicated onto a path whose old file is renamed away or dropped (longer old content), grow/shrink/empty, dirs and symlinks added/removed/retargeted, all deleted); every iteration order of the commit phase's maps; generic-position contents",
  "param_sets":[{"a":3,"b":5,"c":2,"shape":s,"orders":1} for s in shapes]})
H.append({"name":"H_inplace","tiers":Q,"scale":"b2","bounds":"kind swaps (file->dir, empty dir->file, file renamed with a symlink left in its place, symlink->file, symlink-to-directory->real directory (3 variants), non-empty directory->file / ->symlink with its content deleted, moved elsewhere, or moved to the symlink target; content two levels below a directory that becomes a symlink or a file); every iteration order of the commit phase maps",
  "param_sets":[{"a":3,"b":5,"c":2,"shape":s,"orders":1} for s in swaps]})
H.append({"name":"H_inplace","tiers":Q,"scale":"b2","bounds":"content two levels below a directory that becomes a symlink (to the renamed directory holding it, unchanged or replaced; or to another directory) or a file; insertion order, and every map order for the first",
  "param_sets":[{"a":3,"b":5,"c":2,"shape":s,"orders":0} for s in deep]+[{"a":3,"b":5,"c":2,"shape":34,"orders":1}]})
H.append({"name":"H_inplace","tiers":Q,"scale":"b2","bounds":"every rename fails (wharf's BOWL_DEBUG_BROKEN_RENAME switch, as with a stage folder on another device): the bowl falls back to copy + remove; renames, swaps, chains, rotation, duplications and the kind swaps that move files; insertion order",
  "param_sets":[{"a":3,"b":5,"c":2,"shape":s,"orders":0,"brokenrename":1} for s in (1,2,3,4,5,6,14,16,17,18,19,20,22,23,25,28,30,31)]})
H.append({"name":"H_inplace","tiers":T,"scale":"b4","bounds":"B=4; sizes (5,9,4) and (0,4,1); all shapes; all map orders (the deep-nesting shapes 34-37: insertion order)","max_seconds":1500,
  "param_sets":[{"a":a,"b":b,"c":c,"shape":s,"orders":1} for (a,b,c) in ((5,9,4),(0,4,1)) for s in shapes+swaps]+[{"a":a,"b":b,"c":c,"shape":s,"orders":0} for (a,b,c) in ((5,9,4),(0,4,1)) for s in deep]})
H.append({"name":"H_inplace","tiers":T,"scale":"b2","bounds":"B=2; sizes (0,0,0),(1,2,3),(4,4,4); all shapes; all map orders (the deep-nesting shapes 34-37: insertion order)","max_seconds":1500,
  "param_sets":[{"a":a,"b":b,"c":c,"shape":s,"orders":1} for (a,b,c) in ((0,0,0),(1,2,3),(4,4,4)) for s in shapes+swaps]+[{"a":a,"b":b,"c":c,"shape":s,"orders":0} for (a,b,c) in ((0,0,0),(1,2,3),(4,4,4)) for s in deep]})
json.dump({"property":"C02","package":"c02","scale":scale,"harnesses":H,
 "stubs":["os -> in-memory file system model","md5/protobuf models","Go map iteration order -> explored exhaustively during Commit","deterministic goroutine schedule"],
 "outside":["case-insensitive file systems","pairs of relations beyond the listed shapes","block size 64 KiB / overlay window 128 KiB (declared values scaled)"]},open("config.json","w"),indent=1)
for h in H: print(h["name"],h["tiers"],h.get("scale"),len(h.get("param_sets",[1])))
