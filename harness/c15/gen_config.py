#!/usr/bin/env python3
import json
exec(open('../c07/gen_config.py').read().split('Q=["quick"')[0])  # reuse sc()
scale=sc(2,5)
Q=["quick","thorough"];T=["thorough"]
H=[{"name":"H_witness","tiers":Q,"expect":"violation","bounds":"vacuity witness"}]
H.append({"name":"H_diff","tiers":Q,"scale":"b2","preemptions":1,"bounds":"B=2: 2 old / 2 new files (patched + copy), generic-position contents; every schedule of the three per-file goroutines with at most 1 preemption (scheduling points: channel/sync/file-system calls and every source read), full reads; three default policies",
  "param_sets":[{"n0":4,"n1":3,"slicing":0,"policy":p} for p in (0,1,2)]})
H.append({"name":"H_diff","tiers":Q,"scale":"b2","preemptions":0,"bounds":"same build, every short-read slicing (1 byte / half / all) of the source pool, canonical schedule",
  "param_sets":[{"n0":3,"n1":2,"slicing":1,"policy":0}]})
H.append({"name":"H_bsdiff","tiers":Q,"scale":"b2","preemptions":1,"bounds":"bsdiff scanner (scan block 4): concrete periodic contents, old 3..6, new 5..13 (2-4 scan blocks), partitions 1..3, <=1 preemption, 3 policies",
  "param_sets":[{"n0":a,"n1":n,"parts":p,"policy":q} for a in (3,6) for n in (5,9,13) for p in (1,2,3) for q in (0,1,2)]})
H.append({"name":"H_rediff","tiers":Q,"scale":"b2","preemptions":-1,"bounds":"optimizer analysis + rewrite under every iteration order of its maps: new file sharing one block with each of two old files (tie) and a no-tie control",
  "param_sets":[{"shape":0},{"shape":1}]})
H.append({"name":"H_diff","tiers":Q,"scale":"b2","preemptions":0,"bounds":"source readers that return the last bytes of a file together with io.EOF (io.Reader allows it), canonical schedule, three sizes",
  "param_sets":[{"n0":a,"n1":b,"slicing":2,"policy":0} for (a,b) in ((4,3),(3,2),(5,0))]})
H.append({"name":"H_diff","tiers":Q,"scale":"b2","preemptions":-1,"novalidate":True,"bounds":"SMT predictive race query over the event trace of the differ pipeline (diff / sign / reader goroutines, multiread, taskgroup, io.Pipe), with and without short reads",
  "param_sets":[{"n0":4,"n1":3,"slicing":s,"policy":0,"race":1} for s in (0,1)]})
H.append({"name":"H_bsdiff","tiers":Q,"scale":"b2","preemptions":-1,"novalidate":True,"bounds":"race query over the bsdiff scanner's worker / dispatcher / collector goroutines and the suffix-sort goroutines, partitions 1..3",
  "param_sets":[{"n0":6,"n1":n,"parts":p,"policy":0,"race":1} for n in (9,13) for p in (1,2,3)]})
H.append({"name":"H_bsdiff","tiers":Q,"scale":"b2","preemptions":-1,"bounds":"number of CPUs as an environment input: first run sees 8 CPUs (runtime.GOMAXPROCS(0)/NumCPU), second run 1, 2 or 3; partitions 2..4, old 6..8, new 9..13; canonical schedule",
  "param_sets":[{"n0":a,"n1":n,"parts":p,"policy":0,"procs1":8,"procs2":c} for a in (6,8) for n in (9,13) for p in (2,3,4) for c in (1,2,3)]})
H.append({"name":"H_rediff","tiers":Q,"scale":"b2","preemptions":-1,"bounds":"optimizer with 3 partitions, 8 CPUs vs 1 or 2 CPUs, canonical map order and every map order",
  "param_sets":[{"shape":s,"parts":3,"procs1":8,"procs2":c} for s in (0,1) for c in (1,2)]})
H.append({"name":"H_diff","tiers":Q,"scale":"b2","preemptions":-1,"bounds":"WritePatch with 8 CPUs vs 1 CPU, canonical schedule",
  "param_sets":[{"n0":4,"n1":3,"slicing":0,"policy":0,"procs1":8,"procs2":1}]})
scale+=[dict(r,set="w",value=("64" if r.get("match")=="128 * 1024" else r["value"])) for r in sc(2,5)]
H.append({"name":"H_bsdiff","tiers":Q,"scale":"w","preemptions":1,"bounds":"bsdiff with a 64-byte scan block (matches beyond the 8-byte threshold): old 24, new 30..70 (1-2 scan blocks), partitions 1..3, <=1 preemption, 2 policies; and 8 vs 2 CPUs",
  "param_sets":[{"n0":24,"n1":n,"parts":p,"policy":q} for n in (30,70) for p in (1,2,3) for q in (0,1)]+[{"n0":24,"n1":70,"parts":p,"policy":0,"procs1":8,"procs2":2} for p in (2,3)]})
H.append({"name":"H_diff","tiers":T,"scale":"b2","preemptions":1,"bounds":"<=1 preemption, sizes (4,3),(5,2),(3,4),(6,1); full reads and EOF-with-data readers; three policies (2 preemptions exceed the per-instance budget: stated, not run)","max_seconds":900,
  "param_sets":[{"n0":a,"n1":b,"slicing":s,"policy":p} for (a,b) in ((4,3),(5,2),(3,4),(6,1)) for s in (0,2) for p in (0,1,2)]})
H.append({"name":"H_diff","tiers":T,"scale":"b2","preemptions":0,"bounds":"every short-read slicing (1 byte / half / all per read) under the canonical schedule, sizes (4,3),(5,2),(3,4)","max_seconds":900,
  "param_sets":[{"n0":a,"n1":b,"slicing":1,"policy":0} for (a,b) in ((4,3),(5,2),(3,4))]})
H.append({"name":"H_bsdiff","tiers":T,"scale":"b2","preemptions":2,"bounds":"old 2..8, new 5..17, partitions 1..3, <=2 preemptions","max_seconds":900,
  "param_sets":[{"n0":a,"n1":n,"parts":p,"policy":q} for a in (2,5,8) for n in (5,9,17) for p in (1,2,3) for q in (0,1)]})
H.append({"name":"H_bsdiff","tiers":T,"scale":"b2","preemptions":1,"bounds":"4 partitions, <=1 preemption, three policies","max_seconds":900,
  "param_sets":[{"n0":a,"n1":n,"parts":4,"policy":q} for a in (5,8) for n in (5,9,17) for q in (0,1,2)]})
json.dump({"property":"C15","package":"c15","scale":scale,"harnesses":H,
 "stubs":["os -> memfs, md5/protobuf models","cooperative scheduler: switches only at visible operations (sound for data-race-free code); delay/preemption-bounded with several default policies","map iteration order explored exhaustively (rediff)"],
 "outside":["GOMAXPROCS as a scheduling parameter (subsumed by interleaving semantics for DRF code; as a value read by the code it is an explicit input, procs1/procs2)","schedules beyond the bound","races that need a different channel pairing than the observed one; races inside modelled packages"]},open("config.json","w"),indent=1)
for h in H: print(h["name"],h["tiers"],h.get("scale"),len(h.get("param_sets",[1])))
