// Package c15: diffing is deterministic and free of data races.
package c15

import (
	"bytes"
	"context"
	"io"

	"github.com/golang/protobuf/proto"
	"github.com/itchio/lake/pools/fspool"
	"github.com/itchio/wharf/bsdiff"
	"github.com/itchio/wharf/pwr"
	"github.com/itchio/wharf/zzverif/hlib"
	"github.com/itchio/wharf/zzverif/rt"
)

func H_witness() {
	a := rt.Byte("a")
	rt.Assert(a != 9, "witness")
	rt.Reach("end")
}

// procs makes the number of CPUs the code sees (runtime.GOMAXPROCS(0) / NumCPU) an explicit environment
// input of the run that follows: the outputs must not depend on it.
func procs(name string) {
	if rt.HasParam(name) {
		rt.SetProcs(rt.Param(name))
	}
}

type shortReader struct {
	r  io.Reader
	on bool
	// eofWithData: the last bytes of the file are returned together with io.EOF (allowed by io.Reader; decompressing and
	// network readers do it) - implemented with one byte of look-ahead
	eofWithData bool
	ahead       []byte
	done        bool
}

func (s *shortReader) Read(p []byte) (int, error) {
	if s.eofWithData {
		if s.done {
			return 0, io.EOF
		}
		if len(p) == 0 {
			return 0, nil
		}
		n := copy(p, s.ahead)
		s.ahead = s.ahead[:0]
		if n < len(p) {
			m, err := io.ReadFull(s.r, p[n:])
			n += m
			if err != nil {
				s.done = true
				if err == io.EOF || err == io.ErrUnexpectedEOF {
					return n, io.EOF
				}
				return n, err
			}
		}
		var one [1]byte
		if m, _ := io.ReadFull(s.r, one[:]); m == 1 {
			s.ahead = append(s.ahead, one[0])
			return n, nil
		}
		s.done = true
		return n, io.EOF
	}
	if s.on && len(p) > 1 {
		switch rt.Choice("short-read", 3) {
		case 0:
			p = p[:1]
		case 1:
			p = p[:(len(p)+1)/2]
		}
	}
	rt.Yield() // a source reader may yield at arbitrary points
	return s.r.Read(p)
}

type slicingPool struct {
	*fspool.FsPool
	on          bool
	eofWithData bool
}

func (p *slicingPool) GetReader(i int64) (io.Reader, error) {
	r, err := p.FsPool.GetReader(i)
	if err != nil {
		return nil, err
	}
	return &shortReader{r: r, on: p.on, eofWithData: p.eofWithData}, nil
}

func diffOnce(root string, slicing bool) (patch, sig []byte) { return diffWith(root, slicing, false) }

func diffWith(root string, slicing, eofWithData bool) (patch, sig []byte) {
	target := hlib.Walk(root + "/old")
	source := hlib.Walk(root + "/new")
	var pb, sb bytes.Buffer
	dctx := &pwr.DiffContext{Compression: hlib.None(), Consumer: hlib.Consumer, SourceContainer: source,
		Pool: &slicingPool{FsPool: fspool.New(source, root+"/new"), on: slicing, eofWithData: eofWithData}, TargetContainer: target, TargetSignature: hlib.Sign(root+"/old", target)}
	hlib.Must(dctx.WritePatch(context.Background(), &pb, &sb), "WritePatch")
	return pb.Bytes(), sb.Bytes()
}

// H_diff: the patch and signature bytes under every explored schedule / read slicing equal
// those of the canonical run (first-runnable schedule, full reads). Params: n0 (old), n1 (new), slicing.
func H_diff() {
	hlib.SetCopyBuf()
	O := rt.Bytes("old", rt.Param("n0"))
	N := append(append([]byte{}, O[:len(O)/2]...), rt.Bytes("new", rt.Param("n1"))...)
	hlib.DistinctSyms(O, N)
	root := rt.TempDir()
	(&hlib.Build{Files: []hlib.File{{Path: "a", Data: O}, {Path: "b", Data: []byte{1}}}}).Write(root + "/old")
	(&hlib.Build{Files: []hlib.File{{Path: "a", Data: N}, {Path: "c", Data: append([]byte{}, O...)}}}).Write(root + "/new")
	rt.SchedExplore(false)
	procs("procs1")
	p0, s0 := diffOnce(root, false)
	rt.SchedExplore(true)
	procs("procs2")
	p1, s1 := diffWith(root, rt.Param("slicing") == 1, rt.Param("slicing") == 2)
	rt.SchedExplore(false)
	rt.Assert(len(p0) == len(p1) && rt.BytesEqual(p0, p1), "patch bytes do not depend on the schedule or the read slicing")
	rt.Assert(len(s0) == len(s1) && rt.BytesEqual(s0, s1), "signature bytes do not depend on the schedule or the read slicing")
	rt.Reach("end")
}

func series(old, neu []byte, parts int) []*bsdiff.Control {
	dctx := &bsdiff.DiffContext{Partitions: parts}
	var msgs []*bsdiff.Control
	err := dctx.Do(bytes.NewReader(old), bytes.NewReader(neu), func(m proto.Message) error {
		c := m.(*bsdiff.Control)
		msgs = append(msgs, &bsdiff.Control{Add: append([]byte{}, c.Add...), Copy: append([]byte{}, c.Copy...), Seek: c.Seek, Eof: c.Eof})
		return nil
	}, hlib.Consumer)
	hlib.Must(err, "bsdiff.Do")
	return msgs
}

// H_bsdiff: the control series under every explored schedule of the scanner's
// worker / dispatcher / collector goroutines equals the canonical one.
func H_bsdiff() {
	// concrete periodic contents: the quantifier of this harness is the schedule
	old, neu := make([]byte, rt.Param("n0")), make([]byte, rt.Param("n1"))
	for i := range old {
		old[i] = byte(i % 2)
	}
	for i := range neu {
		neu[i] = byte((i / 2) % 2)
	}
	rt.SchedExplore(false)
	procs("procs1")
	a := series(old, neu, rt.Param("parts"))
	rt.SchedExplore(true)
	procs("procs2")
	b := series(old, neu, rt.Param("parts"))
	rt.SchedExplore(false)
	rt.Assert(len(a) == len(b), "same number of control messages under every schedule and CPU count")
	if len(a) == len(b) {
		for i := range a {
			same := a[i].Seek == b[i].Seek && a[i].Eof == b[i].Eof && len(a[i].Add) == len(b[i].Add) && len(a[i].Copy) == len(b[i].Copy) &&
				rt.BytesEqual(a[i].Add, b[i].Add) && rt.BytesEqual(a[i].Copy, b[i].Copy)
			rt.Assert(same, "same control messages under every schedule")
		}
	}
	rt.Reach("end")
}

// H_rediff: the optimizer's output for fixed parameters does not depend on the iteration
// order of its internal maps. New file = one block of old a + one block of old b (a tie
// between two equally good mapping targets, neither at the same path).
func H_rediff() {
	hlib.SetCopyBuf()
	B := hlib.B()
	A, Bc := make([]byte, 2*B), make([]byte, 2*B)
	for i := range A {
		A[i], Bc[i] = byte(1+i%2), byte(3+i%2)
	}
	shape := rt.Param("shape")
	var N []byte
	switch shape {
	case 0: // a tie between two old files
		N = append(append([]byte{}, A[:B]...), Bc[:B]...)
	case 1: // no tie: more of a than of b
		N = append(append([]byte{}, A...), Bc[:B]...)
	}
	root := rt.TempDir()
	(&hlib.Build{Files: []hlib.File{{Path: "a", Data: A}, {Path: "b", Data: Bc}}}).Write(root + "/old")
	(&hlib.Build{Files: []hlib.File{{Path: "n", Data: N}}}).Write(root + "/new")
	d := hlib.Diff(root+"/old", root+"/new")
	opts := hlib.RediffOpts{ForceMapAll: true}
	if rt.HasParam("parts") {
		opts.Partitions = rt.Param("parts")
	}
	procs("procs1")
	o0, m0, err := hlib.Optimize(d.Patch, root+"/old", root+"/new", opts)
	hlib.Must(err, "optimize (canonical map order)")
	rt.MapOrder(1)
	procs("procs2")
	o1, m1, err := hlib.Optimize(d.Patch, root+"/old", root+"/new", opts)
	rt.MapOrder(0)
	hlib.Must(err, "optimize (explored map order)")
	t0, t1 := int64(-1), int64(-1)
	if m0[0] != nil {
		t0 = m0[0].TargetIndex
	}
	if m1[0] != nil {
		t1 = m1[0].TargetIndex
	}
	rt.Assert(t0 == t1, "the file mapping chosen by the optimizer does not depend on map iteration order")
	rt.Assert(len(o0) == len(o1) && rt.BytesEqual(o0, o1), "optimized patch bytes do not depend on map iteration order")
	rt.Reach("end")
}
