#!/usr/bin/env python3
import json
scale=[{"set":"b%d"%b,"file":"pwr/constants.go","ident":"BlockSize","value":str(b)} for b in (2,3,4)]
scale+=[{"set":"b%d"%b,"file":"wsync/algo.go","ident":"MaxDataOp","value":"8"} for b in (2,3,4)]
def sizes(B): return sorted(set([0,1,B-1,B,B+1,2*B-1,2*B,2*B+1,3*B]))
Q=["quick","thorough"];T=["thorough"]
H=[{"name":"H_witness","tiers":Q,"expect":"violation","bounds":"vacuity witness"}]
H.append({"name":"H_sign","tiers":Q,"scale":"b4","bounds":"B=4; one file of size in {0,1,B-1,B,B+1,2B-1,2B,2B+1} + empty dir + symlink; full reads","param_sets":[{"n0":a,"slicing":0} for a in sizes(4) if a<=9]})
H.append({"name":"H_sign","tiers":Q,"scale":"b2","bounds":"B=2; two files, sizes in {0,2,3,5} x {0,3}; full reads","param_sets":[{"n0":a,"n1":b,"slicing":0} for a in (0,2,3,5) for b in (0,3)]})
H.append({"name":"H_sign","tiers":Q,"scale":"b2","bounds":"B=2; one file in {0,1,3,4}; every short-read slicing of the source pool, for each producer","param_sets":[{"n0":a,"slicing":s} for a in (0,1,3,4) for s in (1,2)]})
H.append({"name":"H_sign","tiers":T,"scale":"b3","bounds":"B=3; three files with sizes in {0,1,B-1,B,B+1,2B+1}","max_seconds":900,"param_sets":[{"n0":a,"n1":b,"n2":c,"slicing":0} for a in (0,2,3,4,7) for b in (0,1,3,7) for c in (0,4)]})
H.append({"name":"H_sign","tiers":T,"scale":"b4","bounds":"B=4; one file of 3B bytes","max_seconds":1500,"param_sets":[{"n0":12,"slicing":0}]})
H.append({"name":"H_sign","tiers":T,"scale":"b4","bounds":"B=4; one file 0..2B-1 with short-read slicing","max_seconds":900,"param_sets":[{"n0":a,"slicing":s} for a in range(0,8) for s in (1,2)]})
H.append({"name":"H_sign","tiers":Q,"scale":"b2","bounds":"signature streams written through the model codecs (both producers), two files",
  "param_sets":[{"n0":a,"n1":b,"slicing":0,"comp":c} for a in (0,3,5) for b in (0,3) for c in (1,2)]})
H.append({"name":"H_sign","tiers":Q,"max_steps":2000000000,"bounds":"REGIME R (no constant scaled): one or two files of 64 KiB-1, 64 KiB, 64 KiB+1, 128 KiB, 128 KiB+1 and 3 bytes, concrete pseudo-random with symbolic first and last byte; both producers, read-back, validation",
  "param_sets":[{"n0":a,"n1":b,"slicing":0,"real":1} for (a,b) in ((8+2,-1),(8+3,3+3),(8+4,16+3),(16+4,8+2))]})
json.dump({"property":"C04","package":"c04","scale":scale,"harnesses":H,
 "stubs":["os -> in-memory file system model","crypto/md5 -> injective model (strong hash = block content + length)","protobuf/wire -> tag-faithful codec model","goroutines (diff/sign/reader per file, validator) under the deterministic run-until-block schedule"],
 "outside":["compressed signature streams (gzip/brotli codecs are not encodable; only NONE)","block size 64 KiB (declared value scaled)","schedules other than the canonical one (C15/C16)"]},open("config.json","w"),indent=1)
for h in H: print(h["name"],h["tiers"],h.get("scale"),len(h.get("param_sets",[1])))
