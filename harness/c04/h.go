// Package c04: a build validates against its own signature, however that was produced.
package c04

import (
	"bytes"
	"context"
	"crypto/md5"
	"io"

	"github.com/itchio/lake/pools/fspool"
	"github.com/itchio/savior/seeksource"
	"github.com/itchio/wharf/pwr"
	"github.com/itchio/wharf/wsync"
	"github.com/itchio/wharf/zzverif/hlib"
	"github.com/itchio/wharf/zzverif/rt"
)

func H_witness() {
	a := rt.Byte("a")
	rt.Assert(a != 9, "witness")
	rt.Reach("end")
}

// weak re-implements the rolling checksum of a whole block independently.
func weak(b []byte) uint32 {
	var a, s uint32
	for i, v := range b {
		a += uint32(v)
		s += uint32(len(b)-i) * uint32(v)
	}
	return (a & 0xffff) | ((s & 0xffff) << 16)
}

func strong(b []byte) []byte {
	h := md5.New()
	h.Write(b)
	return h.Sum(nil)
}

// shortReader returns between 1 and len(p) bytes per Read (explored by case split).
type shortReader struct {
	r    io.Reader
	seek io.Seeker
	on   bool
}

func (s *shortReader) Read(p []byte) (int, error) {
	if s.on && len(p) > 1 {
		// 1 byte, half, or everything asked for
		switch rt.Choice("short-read", 3) {
		case 0:
			p = p[:1]
		case 1:
			p = p[:(len(p)+1)/2]
		}
	}
	return s.r.Read(p)
}

// slicingPool wraps a pool so that reads come back arbitrarily short.
type slicingPool struct {
	*fspool.FsPool
	on bool
}

func (p *slicingPool) GetReader(i int64) (io.Reader, error) {
	r, err := p.FsPool.GetReader(i)
	if err != nil {
		return nil, err
	}
	return &shortReader{r: r, on: p.on}, nil
}

// H_sign: sizes n0,n1 (files), plus an empty dir and a symlink; slicing = 1 explores short reads.
func H_sign() {
	hlib.SetCopyBuf()
	B := hlib.B()
	var files []hlib.File
	var contents [][]byte
	for i, name := range []string{"n0", "n1", "n2"} {
		if !rt.HasParam(name) || rt.Param(name) < 0 {
			break
		}
		d := rt.Bytes("f"+string(rune('0'+i)), rt.Param(name))
		if rt.HasParam("real") {
			// regime R: sizes are given in bytes relative to the real 64 KiB block (n = k*B + delta encoded as k*8+delta+3,
			// delta in -3..4): concrete pseudo-random content, first and last byte symbolic
			v := rt.Param(name)
			n := (v/8)*B + (v%8 - 3)
			d = make([]byte, n)
			x := uint32(7 + i)
			for j := range d {
				x = x*1103515245 + 12345
				d[j] = byte(x >> 16)
			}
			if n > 0 {
				d[0] = rt.Byte("first" + string(rune('0'+i)))
				d[n-1] = rt.Byte("last" + string(rune('0'+i)))
			}
		}
		files = append(files, hlib.File{Path: "f" + string(rune('0'+i)), Data: d})
		contents = append(contents, d)
	}
	b := &hlib.Build{Files: files, Dirs: []string{"emptydir"}, Links: []hlib.Link{{Path: "lnk", Dest: "f0"}, {Path: "lnk-dot", Dest: "./f0"}, {Path: "lnk-slash", Dest: "emptydir/"}, {Path: "lnk-up", Dest: "emptydir/../f0"}}}
	root := rt.TempDir()
	b.Write(root + "/new")
	(&hlib.Build{}).Write(root + "/old")

	// producer 1: stand-alone signing
	c := hlib.Walk(root + "/new")
	direct, err := pwr.ComputeSignature(context.Background(), c, &slicingPool{FsPool: fspool.New(c, root+"/new"), on: rt.Param("slicing") == 1}, hlib.Consumer)
	hlib.Must(err, "ComputeSignature")

	// producer 2: diff-time signing (shares one read of the source with the differ)
	target := hlib.Walk(root + "/old")
	var patch, sigBuf bytes.Buffer
	dctx := &pwr.DiffContext{Compression: hlib.CodecParam(), Consumer: hlib.Consumer, SourceContainer: c,
		Pool: &slicingPool{FsPool: fspool.New(c, root+"/new"), on: rt.Param("slicing") == 2}, TargetContainer: target, TargetSignature: hlib.Sign(root+"/old", target)}
	hlib.Must(dctx.WritePatch(context.Background(), &patch, &sigBuf), "WritePatch")
	src := seeksource.FromBytes(sigBuf.Bytes())
	_, err = src.Resume(nil)
	hlib.Must(err, "resume")
	read, err := pwr.ReadSignature(context.Background(), src)
	hlib.Must(err, "ReadSignature")

	// reference: one hash per block, a shorter final block, one hash for an empty file
	var want []wsync.BlockHash
	for fi, d := range contents {
		if len(d) == 0 {
			want = append(want, wsync.BlockHash{FileIndex: int64(fi), StrongHash: strong(nil)})
			continue
		}
		for off, bi := 0, int64(0); off < len(d); off, bi = off+B, bi+1 {
			blk := d[off:hlib.Min(off+B, len(d))]
			h := wsync.BlockHash{FileIndex: int64(fi), BlockIndex: bi, WeakHash: weak(blk), StrongHash: strong(blk)}
			if len(blk) < B {
				h.ShortSize = int32(len(blk))
			}
			want = append(want, h)
		}
	}
	check := func(got []wsync.BlockHash, who string) {
		rt.Assert(len(got) == len(want), who+": number of block hashes")
		if len(got) != len(want) {
			return
		}
		for i := range got {
			g, w := got[i], want[i]
			rt.Assert(g.FileIndex == w.FileIndex && g.BlockIndex == w.BlockIndex, who+": block position")
			rt.Assert(g.WeakHash == w.WeakHash, who+": weak hash")
			rt.Assert(g.ShortSize == w.ShortSize, who+": short size")
			// reference strong hash through the same hash API (injective model in the engine, real MD5 natively)
			rt.Assert(rt.BytesEqual(g.StrongHash, w.StrongHash), who+": strong hash is the hash of exactly the block")
		}
	}
	check(direct, "stand-alone signing")
	check(read.Hashes, "diff-time signing read back")
	rt.Assert(c.EnsureEqual(read.Container) == nil, "signature container equals the build's container")

	// the build validates against both
	for _, sig := range []*pwr.SignatureInfo{{Container: c, Hashes: direct}, read} {
		rt.Assert(pwr.AssertValid(root+"/new", sig) == nil, "fail-fast validation of the undamaged build returns no error")
		wp := root + "/w.pww"
		vctx := &pwr.ValidatorContext{WoundsPath: wp, Consumer: hlib.Consumer}
		rt.Assert(vctx.Validate(context.Background(), root+"/new", sig) == nil, "validation returns no error")
		rt.Assert(!vctx.WoundsConsumer.HasWounds(), "validation reports no wound")
	}
	rt.Reach("end")
}
