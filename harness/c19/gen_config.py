#!/usr/bin/env python3
import json
Q=["quick","thorough"];T=["thorough"]
H=[{"name":"H_witness","tiers":Q,"expect":"violation","bounds":"vacuity witness"}]
H.append({"name":"H_zip","tiers":Q,"preemptions":1,"bounds":"zip: 3 tree shapes (big file first + small files + nested/empty dirs + symlink; 5 small files; dirs and symlink only), symbolic file contents, 1..3 workers and -1, <=1 preemption, 2 default policies (copy buffer 2 bytes: several writes per file)",
  "param_sets":[{"shape":s,"workers":w,"policy":p,"copybuf":2,"numcpu":3} for s in (0,1,2) for w in (1,2,3,-1) for p in (0,1)]})
H.append({"name":"H_zip","tiers":Q,"preemptions":0,"novalidate":True,"bounds":"worker count derived from the CPU count (Concurrency -1) on hosts with 1, 2 and 5 CPUs (runtime.NumCPU is an input of the model), and Concurrency 0; 2 tree shapes",
  "param_sets":[{"shape":s,"workers":w,"policy":0,"copybuf":2,"numcpu":c} for s in (0,3) for (w,c) in ((-1,1),(-1,2),(-1,5),(0,1),(-2,1))]})
H.append({"name":"H_resume","tiers":Q,"preemptions":1,"novalidate":True,"bounds":"resumable extraction interrupted after each of the first 4 reported entries, 1..2 workers, <=1 preemption, 2 policies",
  "param_sets":[{"shape":s,"workers":w,"k":k,"policy":p,"copybuf":2,"numcpu":3} for s in (0,1) for w in (1,2) for k in (1,2,3,4) for p in (0,1)]})
H.append({"name":"H_resume","tiers":Q,"preemptions":1,"novalidate":True,"bounds":"tree with a symlink extracted before its target (behind a big file) and a dangling symlink; interrupted after each of the first 3 reported entries, 1..2 workers, <=1 preemption, 2 policies",
  "param_sets":[{"shape":3,"workers":w,"k":k,"policy":p,"copybuf":2,"numcpu":3} for w in (1,2) for k in (1,2,3) for p in (0,1)]})
H.append({"name":"H_resume","tiers":Q,"preemptions":-1,"novalidate":True,"bounds":"crash at ANY instant: the disk snapshot is taken right before the n-th visible operation (channel/sync/file-system call of any goroutine) of the extraction, n a choice over 1..160 (partially written files, entries created but not yet recorded in the resume file); shapes 0 and 3, 1..2 workers, canonical schedule, 2 policies",
  "param_sets":[{"shape":s,"workers":w,"instants":160,"policy":p,"copybuf":2,"numcpu":3} for s in (0,3) for w in (1,2) for p in (0,1)]})
H.append({"name":"H_zip","tiers":Q,"preemptions":-1,"novalidate":True,"bounds":"SMT predictive race query over the event trace of the canonical run (shared-memory accesses + channel/mutex/fork/WaitGroup skeleton): 3 tree shapes, 2-3 workers",
  "param_sets":[{"shape":s,"workers":w,"policy":0,"copybuf":2,"numcpu":3,"race":1} for s in (0,1,2) for w in (2,3)]})
H.append({"name":"H_resume","tiers":Q,"preemptions":-1,"novalidate":True,"bounds":"race query on the resumable extraction (resume file bookkeeping), 2 workers",
  "param_sets":[{"shape":1,"workers":2,"k":2,"policy":0,"copybuf":2,"numcpu":3,"race":1}]})
H.append({"name":"H_zip","tiers":T,"preemptions":2,"bounds":"<=2 preemptions, 1..3 workers","max_seconds":900,
  "param_sets":[{"shape":s,"workers":w,"policy":p,"copybuf":2,"numcpu":3} for s in (0,1,2,3) for w in (1,2,3) for p in (0,1)]})
H.append({"name":"H_zip","tiers":T,"preemptions":1,"bounds":"<=1 preemption, 4 workers, three policies","max_seconds":900,
  "param_sets":[{"shape":s,"workers":4,"policy":p,"copybuf":2,"numcpu":3} for s in (0,1,3) for p in (0,1,2)]})
H.append({"name":"H_resume","tiers":T,"preemptions":1,"novalidate":True,"bounds":"<=1 preemption, 1..3 workers, every interruption point 1..5, three policies, 3 tree shapes","max_seconds":900,
  "param_sets":[{"shape":s,"workers":w,"k":k,"policy":p,"copybuf":2,"numcpu":3} for s in (0,1,3) for w in (1,2,3) for k in range(1,6) for p in (0,1,2)]})
H.append({"name":"H_resume","tiers":T,"preemptions":-1,"novalidate":True,"bounds":"crash right before any of the first 200 visible operations, 4 tree shapes, 1..3 workers, three policies","max_seconds":900,
  "param_sets":[{"shape":s,"workers":w,"instants":200,"policy":p,"copybuf":2,"numcpu":3} for s in (0,1,2,3) for w in (1,2,3) for p in (0,1,2)]})
json.dump({"property":"C19","package":"c19","models":["modelzip"],"scale":[],"harnesses":H,
 "stubs":["os -> memfs (copy buffer 2 bytes)","arkive/zip -> lossless container of (header, bytes) entries","runtime.NumCPU -> 3","cooperative preemption-bounded scheduler with several default policies"],
 "outside":["tar (archive/tar header codec + os/user are not encodable within reach)","real zip/deflate bytes","containerarchiver","races that need a different channel pairing than the observed one (the race query keeps the pairing of the explored trace)"]},open("config.json","w"),indent=1)
for h in H: print(h["name"],h["tiers"],h.get("scale"),len(h.get("param_sets",[1])))
