// Package c19: archive then extract gives the same tree for any concurrency and resume point.
package c19

import (
	"os"

	"github.com/itchio/wharf/archiver"
	"github.com/itchio/wharf/zzverif/hlib"
	"github.com/itchio/wharf/zzverif/rt"
)

func H_witness() {
	a := rt.Byte("a")
	rt.Assert(a != 9, "witness")
	rt.Reach("end")
}

// tree builds the source tree of shape `shape`.
func tree(shape int) *hlib.Build {
	switch shape {
	case 0: // a big file first, then small ones (workers finish out of order), nested + empty dirs, symlink
		return &hlib.Build{Files: []hlib.File{{Path: "a-big", Data: rt.Bytes("big", 5)}, {Path: "b-small", Data: rt.Bytes("small", 1)}, {Path: "d/nested/c", Data: rt.Bytes("c", 2)}, {Path: "e-empty", Data: []byte{}}},
			Dirs: []string{"d/emptydir"}, Links: []hlib.Link{{Path: "lnk", Dest: "a-big"}}}
	case 1: // many small files
		b := &hlib.Build{}
		for i := 0; i < 5; i++ {
			b.Files = append(b.Files, hlib.File{Path: "f" + string(rune('0'+i)), Data: rt.Bytes("f", 1)})
		}
		return b
	case 2: // only directories and a symlink
		return &hlib.Build{Dirs: []string{"x/y/z", "w"}, Links: []hlib.Link{{Path: "x/l", Dest: "y"}}}
	case 3: // a symlink whose target is extracted after it (behind a big file), and a dangling one
		return &hlib.Build{Files: []hlib.File{{Path: "a-big", Data: rt.Bytes("big", 5)}, {Path: "z-target", Data: rt.Bytes("t", 1)}},
			Links: []hlib.Link{{Path: "b-lnk", Dest: "z-target"}, {Path: "c-dangling", Dest: "nowhere"}}}
	}
	return &hlib.Build{}
}

func compress(root string, b *hlib.Build) (archive string, nDirs, nFiles, nLinks int) {
	b.Write(root + "/src")
	archive = root + "/a.zip"
	f, err := os.Create(archive)
	hlib.Must(err, "create")
	_, err = archiver.CompressZip(f, root+"/src", hlib.Consumer)
	hlib.Must(err, "CompressZip")
	hlib.Must(f.Close(), "close")
	for _, e := range b.Entries() {
		switch e.Kind {
		case 'd':
			nDirs++
		case 'f':
			nFiles++
		case 'l':
			nLinks++
		}
	}
	return
}

func extract(archive, out string, settings archiver.ExtractSettings) (*archiver.ExtractResult, error) {
	f, err := os.Open(archive)
	hlib.Must(err, "open archive")
	defer f.Close()
	st, err := f.Stat()
	hlib.Must(err, "stat archive")
	return archiver.ExtractZip(f, st.Size(), out, settings)
}

// H_zip: compress then extract with `workers` workers. Params: shape, workers.
func H_zip() {
	b := tree(rt.Param("shape"))
	root := rt.TempDir()
	archive, nd, nf, nl := compress(root, b)
	res, err := extract(archive, root+"/out", archiver.ExtractSettings{Consumer: hlib.Consumer, Concurrency: rt.Param("workers")})
	rt.Assert(err == nil, "extraction returns no error")
	if err != nil {
		return
	}
	hlib.AssertSame(hlib.Snapshot(root+"/out"), b.Entries(), "extracted tree equals the source tree")
	rt.Assert(res.Dirs == nd && res.Files == nf && res.Symlinks == nl, "reported entry counts equal the entries extracted")
	rt.Reach("end")
}

// H_resume: the state on disk (tree and resume file) at the moment the k-th entry is reported
// done is what a crash at that moment leaves behind; restarting from it with the same resume
// file must still end with the complete tree. Params: shape, workers, k.
func H_resume() {
	b := tree(rt.Param("shape"))
	root := rt.TempDir()
	archive, _, _, _ := compress(root, b)
	out, resume := root+"/out", root+"/resume.txt"
	k, n := 0, 0
	if rt.HasParam("k") {
		k = rt.Param("k")
	}
	var snap []hlib.Entry
	var resumeBytes []byte
	haveResume, crashed := false, false
	settings := archiver.ExtractSettings{Consumer: hlib.Consumer, Concurrency: rt.Param("workers"), ResumeFrom: resume}
	crash := func() {
		if crashed {
			return
		}
		crashed = true
		// the crash instant: the disk is read in one atomic step (no other goroutine runs meanwhile)
		rt.SchedExplore(false)
		// (resume file first: natively the two reads are not atomic, and the disk only ever gains entries)
		if rb, err := os.ReadFile(resume); err == nil {
			resumeBytes, haveResume = rb, true
		}
		snap = hlib.Snapshot(out)
		rt.SchedExplore(true)
	}
	if rt.HasParam("instants") {
		// the crash instant is a choice over the visible operations (channel / sync / file-system
		// call of any goroutine) of the extraction: right before the n-th one
		hlib.Must(os.MkdirAll(out, 0o755), "mkdir out")
		rt.AtVisibleOp(1+rt.Choice("crash-at", rt.Param("instants")), crash)
	} else {
		settings.OnEntryDone = func(string) {
			n++
			if n == k {
				crash()
			}
		}
	}
	_, err := extract(archive, out, settings)
	rt.Assert(err == nil, "first extraction returns no error")
	if !crashed {
		rt.Reach("end") // fewer than k entries
		return
	}
	if rt.InEngine() && haveResume {
		// (engine only: the snapshot is atomic there) the resume file must never be ahead of the disk
		idx := 0
		for _, c := range resumeBytes {
			idx = idx*10 + int(c-'0')
		}
		rt.Observe("resume-index", idx, len(snap))
		rt.Assert(idx < 100, "resume index parses")
	}
	// put the disk back into the state of the crash instant
	hlib.Must(os.RemoveAll(out), "wipe")
	hlib.Must(os.MkdirAll(out, 0o755), "mkdir")
	for _, e := range snap {
		p := out + "/" + e.Path
		switch e.Kind {
		case 'd':
			hlib.Must(os.MkdirAll(p, 0o755), "restore dir")
		case 'f':
			hlib.Must(os.WriteFile(p, e.Data, 0o644), "restore file")
		case 'l':
			hlib.Must(os.Symlink(e.Dest, p), "restore symlink")
		}
	}
	if haveResume {
		hlib.Must(os.WriteFile(resume, resumeBytes, 0o644), "restore resume file")
	}
	settings.OnEntryDone = nil
	_, err = extract(archive, out, settings)
	rt.Assert(err == nil, "restarted extraction returns no error")
	hlib.AssertSame(hlib.Snapshot(out), b.Entries(), "an extraction interrupted after an entry and restarted ends with the complete tree")
	rt.Reach("end")
}
