// Package c08: data already present in the old build is not sent again.
package c08

import (
	"github.com/itchio/wharf/zzverif/hlib"
	"github.com/itchio/wharf/zzverif/rt"
)

func H_witness() {
	a := rt.Byte("a")
	rt.Assert(a != 9, "witness")
	rt.Reach("end")
}

func clone(b []byte) []byte { return append([]byte{}, b...) }

func totalSize(b *hlib.Build) int64 {
	var n int64
	for _, f := range b.Files {
		n += int64(len(f.Data))
	}
	return n
}

// H_reuse: new files equal to old files (same path / renamed / duplicated), fully
// symbolic contents (coincidences included). Params: a, b old lengths; mode:
// 0 identical build, 1 A renamed, 2 A duplicated twice, 3 A and B swapped.
func H_reuse() {
	hlib.SetCopyBuf()
	A, B := rt.Bytes("A", rt.Param("a")), rt.Bytes("B", rt.Param("b"))
	old := &hlib.Build{Files: []hlib.File{{Path: "A", Data: A}, {Path: "d/B", Data: B}}}
	var neu *hlib.Build
	switch rt.Param("mode") {
	case 0:
		neu = &hlib.Build{Files: []hlib.File{{Path: "A", Data: clone(A)}, {Path: "d/B", Data: clone(B)}}}
	case 1:
		neu = &hlib.Build{Files: []hlib.File{{Path: "renamed", Data: clone(A)}, {Path: "d/B", Data: clone(B)}}}
	case 2:
		neu = &hlib.Build{Files: []hlib.File{{Path: "A", Data: clone(A)}, {Path: "copy1", Data: clone(A)}, {Path: "d/copy2", Data: clone(A)}, {Path: "d/B", Data: clone(B)}}}
	case 3:
		neu = &hlib.Build{Files: []hlib.File{{Path: "A", Data: clone(B)}, {Path: "d/B", Data: clone(A)}}}
	}
	root := rt.TempDir()
	old.Write(root + "/old")
	neu.Write(root + "/new")
	d := hlib.Diff(root+"/old", root+"/new")
	rt.Assert(d.Fresh == 0, "a build made only of old files carries no fresh bytes")
	rt.Assert(d.Fresh+d.Reused == totalSize(neu), "fresh + reused add up to the size of the new build")
	pp := hlib.ParsePatch(d.Patch)
	rt.Assert(len(pp.Files) == len(neu.Files), "one series per new file")
	for _, fs := range pp.Files {
		rt.Assert(fs.FreshBytesOf() == 0, "a new file equal to an old file contributes no fresh bytes")
	}
	rt.Reach("end")
}

// H_edits: k localized edits (overwrite / insert / delete of m bytes at offset o) on
// generic-position content. Params: n (old length), kind (0 overwrite, 1 insert, 2 delete),
// o, m; second edit o2, m2 (m2 = 0: single edit).
func H_edits() {
	hlib.SetCopyBuf()
	Bs := hlib.B()
	n := rt.Param("n")
	O := rt.Bytes("old", n)
	if rt.HasParam("run") && rt.Param("run") >= 0 {
		// a short run of equal bytes (otherwise generic position): consecutive windows with the
		// same rolling hash - the differ's "hash unchanged, skip the lookup" shortcut fires there
		r := rt.Param("run")
		for i := r + 1; i < r+1+hlib.B() && i < n; i++ {
			O[i] = O[r]
		}
	}
	apply := func(src []byte, kind, o, m int, label string) ([]byte, int, bool) {
		if o > len(src) {
			return nil, 0, false
		}
		switch kind {
		case 0: // overwrite m bytes at o
			if o+m > len(src) {
				return nil, 0, false
			}
			out := clone(src)
			copy(out[o:], rt.Bytes(label, m))
			return out, m, true
		case 1: // insert m bytes at o
			ins := rt.Bytes(label, m)
			if rt.HasParam("eqins") && rt.Param("eqins") == 1 {
				// the inserted bytes are a run of one value: consecutive windows with equal rolling hashes
				for i := range ins {
					ins[i] = ins[0]
				}
			}
			out := append(clone(src[:o]), ins...)
			return append(out, src[o:]...), m, true
		default: // delete m bytes at o
			if o+m > len(src) {
				return nil, 0, false
			}
			return append(clone(src[:o]), src[o+m:]...), 0, true
		}
	}
	N, introduced, ok := apply(O, rt.Param("kind"), rt.Param("o"), rt.Param("m"), "edit1")
	k := 1
	if ok && rt.Param("m2") > 0 {
		var intro2 int
		N, intro2, ok = apply(N, rt.Param("kind2"), rt.Param("o2"), rt.Param("m2"), "edit2")
		introduced += intro2
		k = 2
	}
	if !ok {
		rt.Reach("end")
		return
	}
	if !rt.HasParam("sym") || rt.Param("sym") == 0 {
		hlib.DistinctSyms(O, N)
	}
	root := rt.TempDir()
	(&hlib.Build{Files: []hlib.File{{Path: "f", Data: O}}}).Write(root + "/old")
	(&hlib.Build{Files: []hlib.File{{Path: "f", Data: N}}}).Write(root + "/new")
	d := hlib.Diff(root+"/old", root+"/new")
	rt.Assert(d.Fresh+d.Reused == int64(len(N)), "fresh + reused add up to the size of the new build")
	bound := int64(introduced + (2*k+2)*Bs)
	rt.Assert(d.Fresh <= bound, "fresh bytes bounded by the bytes the edits introduce plus (2k+2) blocks")
	rt.Observe("fresh", d.Fresh, "bound", bound)
	rt.Reach("end")
}
