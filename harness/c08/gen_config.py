#!/usr/bin/env python3
import json
def sc(b,mdo): return [{"set":"b%d"%b,"file":"pwr/constants.go","ident":"BlockSize","value":str(b)},
  {"set":"b%d"%b,"file":"wsync/algo.go","ident":"MaxDataOp","value":str(mdo)}]
scale=sc(2,5)+sc(3,7)+sc(4,8)
Q=["quick","thorough"];T=["thorough"]
H=[{"name":"H_witness","tiers":Q,"expect":"violation","bounds":"vacuity witness"}]
H.append({"name":"H_reuse","tiers":Q,"scale":"b2","bounds":"B=2: old files A 0..5, B 0..3 bytes, fully symbolic; new build = identical / A renamed / A duplicated twice / A and B swapped",
  "param_sets":[{"a":a,"b":b,"mode":m} for a in range(0,6) for b in (0,3) for m in range(0,4)]})
def edits(n,Bs,two):
    out=[]
    for kind in (0,1,2):
        for o in range(0,n+1):
            for m in (1,Bs+1):
                if not two: out.append({"n":n,"kind":kind,"o":o,"m":m,"kind2":0,"o2":0,"m2":0})
                else:
                    for kind2 in (0,1,2):
                        for o2 in (0,n//2,n-1):
                            out.append({"n":n,"kind":kind,"o":o,"m":m,"kind2":kind2,"o2":o2,"m2":1})
    return out
H.append({"name":"H_edits","tiers":Q,"scale":"b2","bounds":"B=2: generic-position old file of 9 bytes (4.5 blocks); one edit: overwrite/insert/delete of 1 or B+1 bytes at every offset; bound fresh <= introduced + 4B",
  "param_sets":edits(9,2,False)})
H.append({"name":"H_edits","tiers":Q,"scale":"b2","bounds":"B=2: the same bound with FULLY symbolic contents (coincidences such as equal rolling hashes of consecutive windows reachable): old 7 bytes, one edit of 1 byte at every offset (holds on the unchanged tree for every content in this bound)",
  "param_sets":[dict(p,sym=1) for p in edits(7,2,False) if p["m"]==1]})
H.append({"name":"H_edits","tiers":Q,"scale":"b2","bounds":"B=2: generic-position old file of 17 bytes containing one run of B+1 equal bytes at position r (consecutive windows with equal rolling hashes while the differ is re-synchronising after an edit at offset o <= r): every (o, r) with r-o in 0..3, insert/delete/overwrite of 1 byte",
  "param_sets":[{"n":17,"kind":k,"o":o,"m":1,"kind2":0,"o2":0,"m2":0,"run":r} for k in (0,1,2) for o in (0,1,2,3) for r in range(o,o+4)]})
H.append({"name":"H_edits","tiers":Q,"scale":"b2","bounds":"B=2: generic-position old file of 17 bytes; insertion of a run of B+1 or B+2 equal bytes at every offset 0..8 (consecutive unmatched windows with equal rolling hashes: the 'hash unchanged, skip the lookup' shortcut fires while re-synchronising)",
  "param_sets":[{"n":17,"kind":1,"o":o,"m":m,"kind2":0,"o2":0,"m2":0,"eqins":1} for o in range(0,9) for m in (3,4)]})
H.append({"name":"H_edits","tiers":T,"scale":"b2","bounds":"B=2: old 13 bytes; every single edit; and pairs of edits (second: 1 byte at 3 offsets), bound introduced + 6B","max_seconds":1500,
  "param_sets":edits(13,2,False)+edits(9,2,True)})
H.append({"name":"H_edits","tiers":T,"scale":"b4","bounds":"B=4: old 13 bytes; every single 1-byte overwrite or deletion (insertions and B+1-byte edits at B=4 exceed the per-instance budget)","max_seconds":900,"param_sets":[p for p in edits(13,4,False) if p["m"]==1 and p["kind"]!=1]})
H.append({"name":"H_reuse","tiers":T,"scale":"b3","bounds":"B=3: A 0..7, B in {0,3,4}","max_seconds":1500,
  "param_sets":[{"a":a,"b":b,"mode":m} for a in range(0,8) for b in (0,3,4) for m in range(0,4)]})
json.dump({"property":"C08","package":"c08","scale":scale,"harnesses":H,
 "stubs":["os -> in-memory file system model","md5/protobuf models","generic-position assumption (pairwise distinct symbolic bytes) encodes 'high-entropy content' for the edit bound"],
 "outside":["the numeric bound at 64 KiB blocks (declared value scaled)","more than 2 edits","files > 17 bytes"]},open("config.json","w"),indent=1)
for h in H: print(h["name"],h["tiers"],h.get("scale"),len(h.get("param_sets",[1])))
