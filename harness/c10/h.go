// Package c10: malformed patch/signature/overlay streams yield an error, never a crash.
package c10

import (
	"bytes"
	"context"
	"io"

	"github.com/golang/protobuf/proto"
	"github.com/itchio/lake/pools/fspool"
	"github.com/itchio/lake/tlc"
	"github.com/itchio/savior/seeksource"
	"github.com/itchio/wharf/bsdiff"
	"github.com/itchio/wharf/pwr"
	"github.com/itchio/wharf/pwr/bowl"
	"github.com/itchio/wharf/pwr/overlay"
	"github.com/itchio/wharf/pwr/patcher"
	"github.com/itchio/wharf/pwr/rediff"
	"github.com/itchio/wharf/wire"
	"github.com/itchio/wharf/zzverif/hlib"
	"github.com/itchio/wharf/zzverif/rt"
)

func H_witness() {
	a := rt.Byte("a")
	rt.Assert(a != 9, "witness")
	rt.Reach("end")
}

// the old build (on disk) and the containers of the hand-built streams
func oldBuild() *hlib.Build {
	return &hlib.Build{Files: []hlib.File{{Path: "a", Data: []byte{1, 2, 3, 4, 5}}, {Path: "b", Data: []byte{9, 8, 7}}}}
}

func containers() (target, source *tlc.Container) {
	target = &tlc.Container{Size: 8, Files: []*tlc.File{{Path: "a", Mode: 0o644, Size: 5}, {Path: "b", Mode: 0o644, Size: 3, Offset: 5}}}
	source = &tlc.Container{Size: 12, Files: []*tlc.File{{Path: "a", Mode: 0o644, Size: 6}, {Path: "c", Mode: 0o644, Size: 3, Offset: 6}, {Path: "d", Mode: 0o644, Size: 3, Offset: 9}}}
	return
}

// mutate gives a field its valid value, or a fresh symbolic one when this message is the mutated one.
type mut struct{ idx, cur int }

func (m *mut) i64(valid int64, label string) int64 {
	if m.cur == m.idx {
		return rt.Int64(label)
	}
	return valid
}
func (m *mut) i32(valid int32, label string) int32 {
	if m.cur == m.idx {
		return rt.Int32(label)
	}
	return valid
}
func (m *mut) boolean(valid bool, label string) bool {
	if m.cur == m.idx {
		return rt.Bool(label)
	}
	return valid
}

// buildPatch writes a valid patch (B = pwr.BlockSize = 2 in the scaled build) in which
// the integer/enum/bool fields of message number `mutIdx` are symbolic. `structure`
// alters the message sequence: 0 none, 1 drop the first end marker, 2 duplicate it,
// 3 swap the kinds of the two series headers, 4 drop the bsdiff EOF control, 5 an op after the full-file op of the
// third file, 6 no end marker after it, 7 a patch header without compression settings. mutIdx 100: the header's
// compression algorithm and quality are symbolic.
func buildPatch(mutIdx, structure int) []byte {
	target, source := containers()
	var buf bytes.Buffer
	wc := wire.NewWriteContext(&buf)
	m := &mut{idx: mutIdx}
	w := func(msg proto.Message) {
		hlib.Must(wc.WriteMessage(msg), "write message")
		m.cur++
	}
	hlib.Must(wc.WriteMagic(pwr.PatchMagic), "magic")
	switch {
	case structure == 7:
		// the header carries no compression settings at all (a zero-length message)
		hlib.Must(wc.WriteMessage(&pwr.PatchHeader{}), "empty header")
	case mutIdx == 100:
		// the header's compression algorithm and quality are arbitrary (unknown algorithm, negative quality ...)
		hlib.Must(wc.WriteMessage(&pwr.PatchHeader{Compression: &pwr.CompressionSettings{Algorithm: pwr.CompressionAlgorithm(rt.Int32("hdr.algorithm")), Quality: rt.Int32("hdr.quality")}}), "symbolic header")
	default:
		hlib.Must(wc.WriteMessage(&pwr.PatchHeader{Compression: hlib.None()}), "header")
	}
	hlib.Must(wc.WriteMessage(target), "target")
	hlib.Must(wc.WriteMessage(source), "source")
	k0, k1 := pwr.SyncHeader_RSYNC, pwr.SyncHeader_BSDIFF
	if structure == 3 {
		k0, k1 = k1, k0
	}
	// file 0: rsync series                                                   message numbers:
	w(&pwr.SyncHeader{Type: pwr.SyncHeader_Type(m.i32(int32(k0), "sh0.type")), FileIndex: m.i64(0, "sh0.fileIndex")})                                             // 0
	w(&pwr.SyncOp{Type: pwr.SyncOp_Type(m.i32(int32(pwr.SyncOp_BLOCK_RANGE), "op0.type")), FileIndex: m.i64(0, "op0.fileIndex"), BlockIndex: m.i64(0, "op0.blockIndex"), BlockSpan: m.i64(2, "op0.blockSpan")}) // 1
	w(&pwr.SyncOp{Type: pwr.SyncOp_Type(m.i32(int32(pwr.SyncOp_DATA), "op1.type")), FileIndex: m.i64(0, "op1.fileIndex"), BlockIndex: m.i64(0, "op1.blockIndex"), BlockSpan: m.i64(0, "op1.blockSpan"), Data: []byte{7, 7}}) // 2
	if structure != 1 {
		w(&pwr.SyncOp{Type: pwr.SyncOp_Type(m.i32(int32(pwr.SyncOp_HEY_YOU_DID_IT), "end0.type")), FileIndex: m.i64(0, "end0.fileIndex"), BlockSpan: m.i64(0, "end0.blockSpan")}) // 3
	} else {
		m.cur++
	}
	if structure == 2 {
		hlib.Must(wc.WriteMessage(&pwr.SyncOp{Type: pwr.SyncOp_HEY_YOU_DID_IT}), "dup end")
	}
	// file 1: bsdiff series against old file 1
	w(&pwr.SyncHeader{Type: pwr.SyncHeader_Type(m.i32(int32(k1), "sh1.type")), FileIndex: m.i64(1, "sh1.fileIndex")}) // 4
	w(&pwr.BsdiffHeader{TargetIndex: m.i64(1, "bh.targetIndex")})                                                   // 5
	addLen := 1
	if m.cur == m.idx {
		addLen = rt.Choice("ctrl.addLen", 5)
	}
	w(&bsdiff.Control{Add: make([]byte, addLen), Copy: []byte{5}, Seek: m.i64(0, "ctrl.seek"), Eof: m.boolean(false, "ctrl.eof")}) // 6
	addLen2 := 1
	if m.cur == m.idx {
		addLen2 = rt.Choice("ctrl2.addLen", 5)
	}
	// (a second control, so that the old-file position reached by the first one's seek is actually read from)
	w(&bsdiff.Control{Add: make([]byte, addLen2), Seek: m.i64(0, "ctrl2.seek"), Eof: m.boolean(false, "ctrl2.eof")}) // 7
	if structure != 4 {
		w(&bsdiff.Control{Seek: m.i64(0, "eofctrl.seek"), Eof: m.boolean(true, "eofctrl.eof")}) // 8
	} else {
		m.cur++
	}
	w(&pwr.SyncOp{Type: pwr.SyncOp_Type(m.i32(int32(pwr.SyncOp_HEY_YOU_DID_IT), "end1.type"))}) // 9
	// file 2: a whole-file copy of old file 1 (one block range spanning it: the patcher transposes instead of copying ops)
	w(&pwr.SyncHeader{Type: pwr.SyncHeader_Type(m.i32(int32(pwr.SyncHeader_RSYNC), "sh2.type")), FileIndex: m.i64(2, "sh2.fileIndex")})                                                  // 10
	w(&pwr.SyncOp{Type: pwr.SyncOp_Type(m.i32(int32(pwr.SyncOp_BLOCK_RANGE), "full.type")), FileIndex: m.i64(1, "full.fileIndex"), BlockIndex: m.i64(0, "full.blockIndex"), BlockSpan: m.i64(2, "full.blockSpan")}) // 11
	if structure == 5 {
		// an op after the full-file op
		hlib.Must(wc.WriteMessage(&pwr.SyncOp{Type: pwr.SyncOp_DATA, Data: []byte{1}}), "trailing op")
	}
	if structure != 6 {
		w(&pwr.SyncOp{Type: pwr.SyncOp_Type(m.i32(int32(pwr.SyncOp_HEY_YOU_DID_IT), "end2.type"))}) // 12
	}
	return buf.Bytes()
}

// consume feeds a patch stream to the applier and to the optimizer; any panic is a violation.
func consume(patch []byte, root string) {
	// "never loops forever": a path that exhausts its decision or instruction budget is reported as candidate
	// non-termination (with the wide inputs made huge) and confirmed natively by a 10 s timeout
	rt.NonTerminationIsViolation(true)
	// patch applier (fresh bowl)
	p, err := patcher.New(seeksource.FromBytes(patch), hlib.Consumer)
	if err == nil {
		pool := fspool.New(p.GetTargetContainer(), root+"/old")
		fb, berr := bowl.NewFreshBowl(bowl.FreshBowlParams{SourceContainer: p.GetSourceContainer(), TargetContainer: p.GetTargetContainer(), TargetPool: pool, OutputFolder: root + "/out"})
		if berr == nil {
			if p.Resume(nil, pool, fb) == nil {
				fb.Commit()
			}
		}
	}
	rt.Reach("applier-returned")
	// optimizer
	rc, err := rediff.NewContext(rediff.Params{PatchReader: seeksource.FromBytes(patch), Compression: hlib.None(), Consumer: hlib.Consumer})
	if err == nil {
		var out bytes.Buffer
		rc.Optimize(rediff.OptimizeParams{TargetPool: fspool.New(rc.GetTargetContainer(), root+"/old"), SourcePool: fspool.New(rc.GetSourceContainer(), root+"/new"), PatchWriter: &out})
	}
	rt.Reach("optimizer-returned")
}

func setup() string {
	hlib.SetCopyBuf()
	root := rt.TempDir()
	oldBuild().Write(root + "/old")
	(&hlib.Build{Files: []hlib.File{{Path: "a", Data: []byte{1, 2, 3, 4, 7, 7}}, {Path: "c", Data: []byte{9, 8, 5}}, {Path: "d", Data: []byte{9, 8, 7}}}}).Write(root + "/new")
	return root
}

// H_fields: params mut (message number 0..8), structure (0..4).
func H_fields() {
	root := setup()
	patch := buildPatch(rt.Param("mut"), rt.Param("structure"))
	consume(patch, root)
	rt.Reach("end")
}

// H_truncate: the valid stream cut at byte index cut (every index is an instance).
func H_truncate() {
	root := setup()
	patch := buildPatch(-1, 0)
	cut := rt.Param("cut")
	if cut > len(patch) {
		// (the stream is shorter natively than under the codec model: past its end the whole stream is consumed)
		cut = len(patch)
	}
	consume(patch[:cut], root)
	rt.Reach("end")
}

// H_signature: a signature stream whose container is well-formed (files of 5, 0 and 3 bytes,
// i.e. 3+1+2 hashes at B=2) but which carries nh block hashes (fewer or more than needed)
// with symbolic weak hashes; then the hash grouping and a block validation are built from it.
func H_signature() {
	nh := rt.Param("nh")
	c := &tlc.Container{Size: 8, Files: []*tlc.File{{Path: "a", Mode: 0o644, Size: 5}, {Path: "e", Mode: 0o644, Size: 0, Offset: 5}, {Path: "b", Mode: 0o644, Size: 3, Offset: 5}}}
	if rt.HasParam("layout") {
		switch rt.Param("layout") {
		case 1: // the empty file first (no hash before its zero-length one)
			c = &tlc.Container{Size: 8, Files: []*tlc.File{{Path: "e", Mode: 0o644, Size: 0}, {Path: "a", Mode: 0o644, Size: 5}, {Path: "b", Mode: 0o644, Size: 3, Offset: 5}}}
		case 2: // one, then two hashes before empty files; an empty file last
			c = &tlc.Container{Size: 5, Files: []*tlc.File{{Path: "a", Mode: 0o644, Size: 2}, {Path: "e1", Mode: 0o644, Size: 0, Offset: 2}, {Path: "e2", Mode: 0o644, Size: 0, Offset: 2}, {Path: "b", Mode: 0o644, Size: 3, Offset: 2}, {Path: "e3", Mode: 0o644, Size: 0, Offset: 5}}}
		}
	}
	var buf bytes.Buffer
	wc := wire.NewWriteContext(&buf)
	hlib.Must(wc.WriteMagic(pwr.SignatureMagic), "magic")
	hdr := 0
	if rt.HasParam("hdr") {
		hdr = rt.Param("hdr")
	}
	switch hdr {
	case 1:
		hlib.Must(wc.WriteMessage(&pwr.SignatureHeader{}), "empty header")
	case 2:
		hlib.Must(wc.WriteMessage(&pwr.SignatureHeader{Compression: &pwr.CompressionSettings{Algorithm: pwr.CompressionAlgorithm(rt.Int32("sighdr.algorithm")), Quality: rt.Int32("sighdr.quality")}}), "symbolic header")
	default:
		hlib.Must(wc.WriteMessage(&pwr.SignatureHeader{Compression: hlib.None()}), "header")
	}
	hlib.Must(wc.WriteMessage(c), "container")
	for i := 0; i < nh; i++ {
		hlib.Must(wc.WriteMessage(&pwr.BlockHash{WeakHash: rt.Uint32("weak"), StrongHash: []byte{byte(i)}}), "hash")
	}
	stream := buf.Bytes()
	if rt.HasParam("cut") && rt.Param("cut") >= 0 {
		if rt.Param("cut") > len(stream) {
			rt.Reach("end")
			return
		}
		stream = stream[:rt.Param("cut")]
	}
	src := seeksource.FromBytes(stream)
	_, err := src.Resume(nil)
	hlib.Must(err, "resume")
	sig, err := pwr.ReadSignature(context.Background(), src)
	if err == nil {
		hi, err := pwr.ComputeHashInfo(sig)
		if err == nil {
			bv := pwr.NewBlockValidator(hi)
			if len(sig.Container.Files) == 0 {
				rt.Reach("end")
				return
			}
			fi := int64(rt.Choice("fileIndex", len(sig.Container.Files)))
			bi := int64(rt.Int("blockIndex", 0, 4))
			bv.ValidateAsError(fi, bi, []byte{1, 2})
			bv.ValidateAsWound(fi, bi, []byte{1})
		}
	}
	rt.Reach("end")
}

type memFile struct {
	data []byte
	pos  int64
}

func (m *memFile) Write(p []byte) (int, error) {
	if m.pos < 0 {
		return 0, io.ErrShortWrite
	}
	if m.pos > 64 {
		return 0, io.ErrShortWrite
	}
	for int64(len(m.data)) < m.pos {
		m.data = append(m.data, 0)
	}
	for i, c := range p {
		q := m.pos + int64(i)
		if q < int64(len(m.data)) {
			m.data[q] = c
		} else {
			m.data = append(m.data, c)
		}
	}
	m.pos += int64(len(p))
	return len(p), nil
}

func (m *memFile) Seek(off int64, whence int) (int64, error) {
	np := off
	switch whence {
	case io.SeekCurrent:
		np = m.pos + off
	case io.SeekEnd:
		np = int64(len(m.data)) + off
	}
	if np < 0 {
		return 0, io.ErrUnexpectedEOF
	}
	m.pos = np
	return np, nil
}

// H_overlay: an overlay stream whose operations carry symbolic type and length fields
// (optionally truncated at `cut`).
func H_overlay() {
	var buf bytes.Buffer
	wc := wire.NewWriteContext(&buf)
	hlib.Must(wc.WriteMagic(overlay.OverlayMagic), "magic")
	hlib.Must(wc.WriteMessage(&overlay.OverlayHeader{}), "header")
	mutIdx := rt.Param("mut")
	for i := 0; i < 3; i++ {
		op := &overlay.OverlayOp{Type: overlay.OverlayOp_FRESH, Data: []byte{1, 2}}
		if i == 1 {
			op = &overlay.OverlayOp{Type: overlay.OverlayOp_SKIP, Len: 2}
		}
		if i == mutIdx {
			op.Type = overlay.OverlayOp_Type(rt.Int32("type"))
			op.Len = rt.Int64("len")
		}
		hlib.Must(wc.WriteMessage(op), "op")
	}
	if rt.Param("end") == 1 {
		hlib.Must(wc.WriteMessage(&overlay.OverlayOp{Type: overlay.OverlayOp_HEY_YOU_DID_IT}), "end")
	}
	stream := buf.Bytes()
	if rt.Param("cut") >= 0 {
		if rt.Param("cut") > len(stream) {
			rt.Reach("end")
			return
		}
		stream = stream[:rt.Param("cut")]
	}
	src := seeksource.FromBytes(stream)
	_, err := src.Resume(nil)
	hlib.Must(err, "resume")
	(&overlay.OverlayPatchContext{}).Patch(src, &memFile{data: []byte{5, 5, 5, 5, 5, 5}})
	rt.Reach("end")
}
