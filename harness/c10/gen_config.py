#!/usr/bin/env python3
import json
exec(open('../c07/gen_config.py').read().split('Q=["quick"')[0])  # reuse sc()
scale=sc(2,5)
# set "c8": the same with an LRU chunk of 8 bytes (old files end inside a chunk, not on its boundary)
scale+=[dict(r,set="c8",value=("8" if r.get("ident")=="lruChunkSize" else r["value"])) for r in sc(2,5)]
Q=["quick","thorough"];T=["thorough"]
H=[{"name":"H_witness","tiers":Q,"expect":"violation","bounds":"vacuity witness"}]
H.append({"name":"H_fields","tiers":Q,"scale":"b2","bounds":"valid 2-file patch (rsync series + bsdiff series), B=2: the int64/enum/bool fields of one message at a time (13 messages) replaced by fresh symbolic values over the full 32/64-bit range, fed to patcher.New/Resume (fresh bowl) and rediff.NewContext/Optimize",
  "max_steps":20000000,"max_decisions":400,"param_sets":[{"mut":m,"structure":0} for m in range(13)]})
H.append({"name":"H_fields","tiers":Q,"scale":"c8","bounds":"the bsdiff series messages (header, two controls, EOF control) mutated with an LRU chunk of 8 bytes: the 3-byte old file ends inside a chunk",
  "max_steps":20000000,"param_sets":[{"mut":m,"structure":0} for m in (5,6,7,8)]})
H.append({"name":"H_fields","tiers":Q,"scale":"b2","bounds":"structure mutations: end marker dropped / duplicated, series kinds swapped, bsdiff EOF control dropped, an op after a full-file op, no end marker after it, patch header without compression settings (no field mutated); and the header's compression algorithm / quality symbolic",
  "max_steps":20000000,"param_sets":[{"mut":-1,"structure":s} for s in range(1,8)]+[{"mut":100,"structure":0}]})
H.append({"name":"H_truncate","tiers":Q,"scale":"b2","bounds":"the valid patch stream truncated at every byte index","max_steps":20000000,"param_sets":[{"cut":c} for c in range(0,400,1)]})
H.append({"name":"H_signature","tiers":Q,"scale":"b2","bounds":"signature stream for files of 5,0,3 bytes (6 hashes needed) carrying 0..8 hashes with symbolic weak hashes; grouping and block validation at every file/block index","param_sets":[{"nh":n,"cut":-1} for n in range(0,9)]})
H.append({"name":"H_signature","tiers":Q,"scale":"b2","bounds":"other container layouts: the empty file first; empty files after 1 and 2 hashes and an empty file last; 0..8 hashes",
  "param_sets":[{"nh":n,"cut":-1,"layout":l} for l in (1,2) for n in range(0,9)]})
H.append({"name":"H_signature","tiers":Q,"scale":"b2","bounds":"signature header without compression settings / with symbolic algorithm and quality",
  "param_sets":[{"nh":6,"cut":-1,"hdr":1},{"nh":6,"cut":-1,"hdr":2}]})
H.append({"name":"H_signature","tiers":Q,"scale":"b2","bounds":"signature stream truncated at every byte index","param_sets":[{"nh":6,"cut":c} for c in range(0,190)]})
H.append({"name":"H_overlay","tiers":Q,"bounds":"overlay stream of 3 ops: type and length of one op symbolic (full range), with/without end marker; and truncated at every byte","param_sets":[{"mut":m,"end":e,"cut":-1} for m in (-1,0,1,2) for e in (0,1)]+[{"mut":-1,"end":1,"cut":c} for c in range(0,70)]})
H.append({"name":"H_fields","tiers":T,"scale":"b2","bounds":"a mutated message combined with each structure mutation","max_seconds":1500,"max_steps":20000000,"param_sets":[{"mut":m,"structure":s} for m in range(13) for s in range(1,7)]})
json.dump({"property":"C10","package":"c10","scale":scale,"harnesses":H,
 "stubs":["os -> memfs, protobuf -> tag-faithful codec model (truncation inside a message is reported as the codec's error)","md5 model"],
 "outside":["compressed framing","malformed containers, lengths beyond the stream (excluded by the property)","two fields of different messages mutated at once","real protobuf varint-level corruption inside a message"]},open("config.json","w"),indent=1)
for h in H: print(h["name"],h["tiers"],h.get("scale"),len(h.get("param_sets",[1])))
