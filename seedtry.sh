#!/bin/bash
# usage: seedtry.sh <patch.diff> <property> [gosym args...]  -- applies the patch to a scratch worktree at /repo's HEAD, runs the check there, removes the worktree
patch="$1"; prop="$2"; shift 2
wt=$(mktemp -d /tmp/seedtry.XXXX); rmdir $wt
git -C /repo worktree add -q --detach $wt HEAD || exit 2
(cd $wt && git apply "$patch") || { echo "patch does not apply to HEAD"; git -C /repo worktree remove --force $wt; exit 2; }
/verif/seedtest.sh $wt $prop "$@"; rc=$?
git -C /repo worktree remove --force $wt
exit $rc
