#!/bin/bash
# usage: seedverify.sh <worktree> <seed-id> <property> "<caught-by>"
# confirms: suite passes with the change, demo fails with it and passes without; stores under /verif/seeded/<seed-id>
wt="$1"; id="$2"; prop="$3"; caught="$4"
export GOFLAGS=-mod=mod GOPROXY=off
cd "$wt" || exit 2
out=/verif/seeded/$id; mkdir -p $out
cp SEED_OUT/patch.diff $out/patch.diff
# the worktree must contain exactly the recorded change (agents share one stash ref: do not trust the tree)
git checkout -q -- . && git apply SEED_OUT/patch.diff || { echo "patch.diff does not apply to a clean tree"; exit 2; }
demo=$(python3 -c "import json;print(json.load(open('SEED_OUT/meta.json')).get('demo_cmd',''))")
pkgs=$(go list ./... | grep -v "zz_demo\|SEED_OUT")
suite=$(go test -vet=off -count=1 -timeout 20m $pkgs 2>&1 | grep -v "^ok\|no test files" | head -5)
[ -z "$suite" ] && suite_ok=true || suite_ok=false
with=$(bash -c "$demo" 2>&1 | tail -3 | tr '\n' ' ')
git apply -R SEED_OUT/patch.diff
without=$(bash -c "$demo" 2>&1 | tail -3 | tr '\n' ' ')
git apply SEED_OUT/patch.diff
find . -name 'zz_demo*' -newer go.mod -type f | head -3 | while read f; do cp "$f" $out/; done
cp SEED_OUT/*_test.go $out/ 2>/dev/null
python3 - "$out" "$prop" "$caught" "$suite_ok" "$with" "$without" "$demo" <<'PY'
import json,sys
out,prop,caught,suite_ok,w,wo,demo=sys.argv[1:8]
m=json.load(open('SEED_OUT/meta.json'))
m.update({"property":prop,"breaks":prop,"suite_passes_with_change":suite_ok=="true","demo_cmd":demo,"demo_with_change":w[-300:],"demo_without_change":wo[-300:],
 "confirmed_by":"seedverify.sh: full suite in scratch worktree, demo with and without the change","caught_by":caught})
json.dump(m,open(out+'/meta.json','w'),indent=1)
print(json.dumps({k:m[k] for k in ("suite_passes_with_change","demo_with_change","demo_without_change")},indent=1))
PY
