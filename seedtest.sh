#!/bin/bash
# usage: seedtest.sh <patch.diff> <property> [check args...]   -- applies the patch to /repo, runs the check, reverts
patch="$1"; prop="$2"; shift 2
cd /repo && git apply "$patch" || { echo "patch does not apply"; exit 2; }
cd /verif && ./check "$prop" "$@" 2>&1 | grep -E "VIOLATION|KNOWN|UNCONF|BROKEN|tier=" | cut -c1-300 | head -8
rc=${PIPESTATUS[0]}
git -C /repo checkout -- . 
exit $rc
