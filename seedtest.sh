#!/bin/bash
# usage: seedtest.sh <worktree-with-change-applied | patch.diff> <property> [gosym args...]
# Runs the check of <property> against a seeded change. With a worktree the change is checked in place
# (-repo/-out: /repo and the committed evidence are not touched); with a patch file it is applied to /repo,
# checked, and reverted straight afterwards.
src="$1"; prop="$2"; shift 2
cd /verif
export GOFLAGS=-mod=mod GOPROXY=off
if [ -d "$src" ]; then
  out=$(mktemp -d /tmp/seedout.XXXX)
  ./check "$prop" -repo "$src" -out "$out" "$@" 2>&1 | grep -E "VIOLATION|KNOWN|UNCONF|BROKEN|TRANSLATOR|INCONCL|tier=" | cut -c1-300 | head -12
  rc=${PIPESTATUS[0]}
  echo "(evidence and replays in $out)"
  exit $rc
fi
cd /repo && git apply "$src" || { echo "patch does not apply"; exit 2; }
cd /verif && ./check "$prop" "$@" 2>&1 | grep -E "VIOLATION|KNOWN|UNCONF|BROKEN|TRANSLATOR|INCONCL|tier=" | cut -c1-300 | head -12
rc=${PIPESTATUS[0]}
git -C /repo checkout -- .
exit $rc
