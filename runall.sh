#!/bin/bash
# runs every claimed quick check sequentially; summary lines to stdout
cd /verif
for p in $(python3 -c "import json; print(' '.join(c['property_id'] for c in json.load(open('MANIFEST.json'))['checks']))"); do
  s=$(date +%s); ./check $p --tier ${1:-quick} > /tmp/run_$p.log 2>&1; rc=$?; e=$(date +%s)
  echo "$p rc=$rc $((e-s))s $(tail -1 /tmp/run_$p.log | cut -c1-200)"; grep -E "^(VIOLATION|UNCONF|BROKEN|TRANSLATOR|INCONCLUSIVE)" /tmp/run_$p.log | head -3 | cut -c1-300
done
