#!/usr/bin/env python3
# Regenerates MANIFEST.json from the per-property table below.
import json, os
claimed = {
 "C01": ("bounded symbolic execution (gosym over go/ssa, SMT-decided) of ComputeSignature, WritePatch, wsync differ, wire, patcher, fresh bowl on an in-memory file system; native replay of counterexamples",
         "Within the instance grids (scaled block size 2..4, 1-3 files up to 2B+1 bytes, 9x9 shape relations) all byte values are covered by the solver at once; compression: NONE and two model codecs (wiring only); one regime-R harness with unscaled constants.",
         "memfs/md5/protobuf models; deterministic goroutine schedule; real compression codecs outside the claim (model codecs cover the wiring)"),
 "C02": ("bounded symbolic execution of the overlay bowl (stage + Commit) under the real patcher on an in-memory file system; every iteration order of the maps visited during Commit explored as decisions; SMT-decided; native replay",
         "For the 19 path-level relations x listed sizes, all contents (generic position) and all commit map orders: old build untouched before Commit, result == new build == fresh apply. Includes 4 kind-swap relations.",
         "memfs/md5/protobuf models; scaled constants; deterministic goroutine schedule"),
 "C03": ("bounded symbolic execution of save/resume: patcher checkpoints serialized (gob model), interruption at every checkpoint index k and lag, in-progress output truncated to every length >= the checkpointed offset, brand-new patcher/pool/bowl resumed; SMT-decided",
         "For the two build pairs, fresh and overlay bowls, rsync and bsdiff series, every (k, lag, truncation) in the grid: resume succeeds and reproduces the uninterrupted result.",
         "memfs/gob/md5/protobuf models; compression NONE and two model codecs (the decompressing source's nested checkpoint is exercised; real codecs outside); chains of up to two interruptions"),
 "C06": ("bounded symbolic execution of Validate with the archive healer (zip container model) over 12 damage shapes incl. kind swaps hiding subtrees, under delay/preemption-bounded schedules of validator/consumer/heal-worker goroutines with several default policies; native replay",
         "For every damage shape, contents and explored schedule in the bound: healing returns nil, the build is complete afterwards and fail-fast validation passes; a valid directory is untouched.",
         "memfs (atomic calls = scheduling points)/zip container/md5/protobuf models; cooperative scheduler sound for DRF code"),
 "C15": ("bounded symbolic execution comparing, inside one path, the canonical run with a run under every explored schedule (delay bound 1-2, 3 policies), read slicing or map iteration order: patch/signature bytes, bsdiff control series, optimizer output; SMT decides byte equality for all contents; plus an SMT predictive data-race query (happens-before order variables over the recorded event trace of WritePatch and bsdiff goroutines) confirmed natively under the Go race detector",
         "Within the bounds the outputs are identical under every explored schedule/slicing/map order, and no pair of conflicting accesses of the analysed paths (<= 12 per race instance) can be re-ordered to coincide.",
         "cooperative scheduler (switches at visible operations only); race query re-orders observed paths only (channel pairing and branch outcomes fixed); memfs/md5/protobuf models"),
 "C16": ("bounded symbolic execution of Validate under preemption-bounded schedules, with the cancellation instant as an explicit choice over every visible operation, scaled wound channel; deadlock = engine-detected violation; native replay",
         "For the damage patterns, consumers and every cancellation instant / schedule in the bound: Validate returns, and a nil fail-fast verdict implies a matching directory.",
         "memfs/context models; wound channel capacity scaled 1024->2; schedules beyond the bound not covered"),
 "C19": ("bounded symbolic execution of CompressZip/ExtractZip on the zip container model under preemption-bounded worker schedules; crash = atomic disk snapshot at the k-th reported entry, restored and restarted with the resume file; SMT predictive data-race query over the worker goroutines; native replay (race candidates under the Go race detector)",
         "Zip only: for the 3 tree shapes, 1-3 workers and every interruption point/schedule in the bound the extracted tree and counts are right, a restart completes the tree, and the analysed paths have no re-orderable conflicting accesses.",
         "tar not encodable (stated outside the claim); zip/deflate formats not modelled (container model); race query covers wharf code only, not memory behind the memfs/zip models"),
 "C07": ("bounded symbolic execution of rediff.NewContext/Optimize (bsdiff.Do with workers, gosaca) followed by fresh and in-place application of the optimized patch; small alphabets; SMT-decided",
         "For all contents over the alphabet within the length bounds, the 5 shapes, partitions, ForceMapAll and size limits listed: Optimize succeeds and the optimized patch produces the new build.",
         "memfs/md5/protobuf/ozzo models; scaled constants; deterministic schedule; every pair of input/output compression settings with model codecs (real codecs outside)"),
 "C08": ("bounded symbolic execution of the differ's accounting: fully symbolic reuse shapes (no fresh bytes) and generic-position single/double edits (fresh <= introduced + (2k+2)B); patch parsed back; SMT-decided",
         "For every reuse shape and every edit kind/offset/length in the grid, for all contents: the stated byte bounds hold and fresh + reused == new size.",
         "memfs/md5/protobuf models; B scaled; generic-position assumption stands for high entropy"),
 "C10": ("bounded symbolic execution of patcher.New/Resume, rediff, ReadSignature/ComputeHashInfo/block validator and overlay Patch on hand-built streams whose message fields are fresh 32/64-bit symbols (one message at a time), structure mutations and every byte-level truncation; implicit panic/termination checks; SMT-decided",
         "For every value of the mutated fields (full range) and every truncation point in the grid: each consumer returns (error or nil) without panicking within the step budget.",
         "memfs/protobuf models (concrete messages have their native encoding); containers well-formed; compression NONE; non-termination = budget exhaustion confirmed natively by timeout"),
 "C17": ("bounded symbolic execution of whitelisted application with recording bowl/pool for all 16 subsets, plain and optimized patches, plus a hand-built series with symbolic BsdiffHeader.TargetIndex over a 2051-file container; SMT-decided",
         "For all subsets and contents in the grid: only whitelisted files are written/copied/read-for and they equal full application; skipping stays in sync for every TargetIndex/Seek value.",
         "memfs/md5/protobuf (tag-faithful) models; scaled constants"),
 "C04": ("bounded symbolic execution of both signature producers (ComputeSignature, diff-time signing via WritePatch), ReadSignature, ComputeHashInfo, Validate/AssertValid; independent reference hashes in the harness; SMT decides all branches/assertions",
         "For every build in the grid (sizes on/around block multiples, 1-3 files, symlink, empty dir, short-read slicings) the solver shows both producers agree with the reference for all contents and the build validates.",
         "memfs/md5 (injective)/protobuf models; deterministic schedule; NONE and model codecs; regime-R instances at 64 KiB blocks"),
 "C05": ("bounded symbolic execution of Validate (wounds-file and fail-fast modes), ValidatingPool, drip writer, AggregateWounds, WoundsWriter with independent symbolic signed/actual contents; SMT-decided; native replay",
         "For all signed/actual contents and lengths in the grid and all entry-kind damage combinations: differing offsets are covered by wounds, wrong lengths/kinds are reported, wounds are well-formed.",
         "memfs/md5/protobuf models; BlockSize and MaxWoundSize declared values scaled by overlay; deterministic schedule"),
 "C09": ("bounded symbolic execution of the safekeeper pool under the real patcher and fresh bowl with an independently symbolic damaged old file; SMT-decided; native replay",
         "For every pristine/damaged length pair in the grid and all contents: error or exact result, and undamaged is accepted.",
         "memfs (copy buffer B/2)/md5/protobuf models; bsdiff series through LRU file + safekeeper with the production chunk:block ratio; one regime-R harness (real 64 KiB blocks / 32 KiB buffers)"),
 "C11": ("bounded symbolic execution of wsync.CreateSignature/ComputeDiff/ApplySingle from go/ssa; SMT (z3/cvc5) decides every branch and assertion; counterexamples replayed natively",
         "Within the listed instance grid (block sizes 1..4, 1-3 old files, new content up to 9 bytes, scaled MaxDataOp 3..8) every byte value of every input is covered at once by the solver; outside the grid nothing is claimed.",
         "md5 replaced by an injective model; MaxDataOp's declared value scaled by overlay (uses are real) and, in regime-R instances, left at 4 MiB with the limit written out in the oracle; solver answers trusted, unknown = inconclusive"),
 "C12": ("bounded symbolic execution of lrufile (symbolic seek offsets / op sequences) and of bsdiff.Do + Patch/Apply (goroutines, gosaca) over small alphabets; SMT-decided; native replay",
         "lrufile: every op sequence of length 3-4 with symbolic offsets and contents agrees with a reference reader; bsdiff: every (old,new) over the alphabet within the length bounds and partitions 0..16 round-trips, also from a saved mid-series offset.",
         "scan block / lru geometry declared values scaled; deterministic goroutine schedule (schedules: C15)"),
 "C13": ("bounded symbolic execution of wire.WriteContext/ReadContext incl. WantSave/PopCheckpoint/Resume over seeksource and a lagging-source model; assertions decided by term identity / SMT",
         "For every message-length pattern, save subset and checkpoint lag in the grid, read-back equals written for all payload bytes and every popped checkpoint resumes at the next unread message.",
         "protobuf/gob models; compressors represented by the source checkpoint contract and by model codecs plugged into CompressWire/DecompressWire (real gzip/brotli codecs and their adapter packages outside the claim)"),
 "C14": ("bounded symbolic execution of the overlay writer/processor and OverlayPatchContext.Patch with fully symbolic old/new contents (solver enumerates equality patterns), write slicings, flushes and session resumes",
         "For all old/new contents up to 2W+3 bytes (scaled window W, threshold T) and the listed write/flush/resume patterns: old+overlay truncated == new.",
         "overlayBufSize/overlaySameThreshold declared values scaled, plus regime-R instances at 128 KiB / 8 KiB; the overlay bowl's entry writer (save / gob / resume in a new bowl) included"),
 "C18": ("bounded symbolic execution of ValidatingPool.GetWriter, drip.Writer, onclose, blockValidator in error and wound mode with every slicing of the written bytes; SMT-decided; native replay",
         "For all signed/written contents and lengths in the grid and every way of slicing the writes: failing call, pass-through prefix and wound records are exactly as the property states.",
         "BlockSize declared value scaled, plus regime-R instances; md5 injective model; recording inner pool; two writers of one pool interleaved"),
}
na = {
}
props=[json.loads(l) for l in open('/verif/properties.jsonl')]
checks=[]
for p in props:
    pid=p['id']
    if pid in claimed:
        tech, text, note = claimed[pid]
        checks.append({
          "property_id": pid,
          "quick_cmd": "./check %s --tier quick" % pid,
          "thorough_cmd": "./check %s --tier thorough" % pid,
          "evidence_file": "/verif/evidence/%s.json" % pid,
          "replay_cmd_template": "./check replay {path}",
          "engine": "gosym",
          "level_claimed": {"category": "model_checking", "text": text, "design_ref": "DESIGN.md section 6 (%s)" % pid},
          "level_note": note,
          "technique": tech})
not_app=[{"property_id":p['id'],"reason":na.get(p['id'],"check not yet built in this session (engine tier pending); see DESIGN.md section 10")} for p in props if p['id'] not in claimed]
m={"version":1,
   "setup_cmd":"cd /verif/engine && GOFLAGS=-mod=mod GOPROXY=off go build -o /verif/bin/gosym ./cmd/gosym",
   "hooks":{"guard":"verif","enable":"no hooks are committed to /repo: harnesses and scaled constants are injected through go/packages overlays at check time","baseline_off_cmd":"cd /repo && GOFLAGS=-mod=mod GOPROXY=off go test -vet=off -count=1 -timeout 25m ./...","source_commits":[],"add_only":True},
   "engines":[{"name":"gosym","path":"/verif/engine","serves_properties":sorted(claimed),"kind_free_text":"symbolic interpreter over go/ssa (x/tools v0.29.0) written for this task; SMT-LIB2 to persistent z3 4.8.12 (incremental + bit-blasting tactic) with one-shot fallback z3 5.1.0 / cvc5 1.0; native replay of every counterexample"}],
   "checks":checks,
   "not_applicable":not_app,
   "notes":"All checks are bounded; bounds, stubs and what lies outside are in each evidence file and in DESIGN.md. fix: commits in /repo are listed in known_findings.json as 'fixed'."}
json.dump(m,open('/verif/MANIFEST.json','w'),indent=1)
print(len(checks),"claimed",len(not_app),"not applicable")
