#!/usr/bin/env python3
# Regenerates MANIFEST.json from the per-property table below.
import json, os
claimed = {
 "C11": ("bounded symbolic execution of wsync.CreateSignature/ComputeDiff/ApplySingle from go/ssa; SMT (z3/cvc5) decides every branch and assertion; counterexamples replayed natively",
         "Within the listed instance grid (block sizes 1..4, 1-3 old files, new content up to 9 bytes, scaled MaxDataOp 3..8) every byte value of every input is covered at once by the solver; outside the grid nothing is claimed.",
         "md5 replaced by an injective model; MaxDataOp's declared value scaled by overlay (uses are real); solver answers trusted, unknown = inconclusive"),
}
na = {
}
props=[json.loads(l) for l in open('/verif/properties.jsonl')]
checks=[]
for p in props:
    pid=p['id']
    if pid in claimed:
        tech, text, note = claimed[pid]
        checks.append({
          "property_id": pid,
          "quick_cmd": "./check %s --tier quick" % pid,
          "thorough_cmd": "./check %s --tier thorough" % pid,
          "evidence_file": "/verif/evidence/%s.json" % pid,
          "replay_cmd_template": "./check replay {path}",
          "engine": "gosym",
          "level_claimed": {"category": "model_checking", "text": text, "design_ref": "DESIGN.md section 6 (%s)" % pid},
          "level_note": note,
          "technique": tech})
not_app=[{"property_id":p['id'],"reason":na.get(p['id'],"check not yet built in this session (engine tier pending); see DESIGN.md section 10")} for p in props if p['id'] not in claimed]
m={"version":1,
   "setup_cmd":"cd /verif/engine && GOFLAGS=-mod=mod GOPROXY=off go build -o /verif/bin/gosym ./cmd/gosym",
   "hooks":{"guard":"verif","enable":"no hooks are committed to /repo: harnesses and scaled constants are injected through go/packages overlays at check time","baseline_off_cmd":"cd /repo && GOFLAGS=-mod=mod GOPROXY=off go test -vet=off -count=1 -timeout 25m ./...","source_commits":[],"add_only":True},
   "engines":[{"name":"gosym","path":"/verif/engine","serves_properties":sorted(claimed),"kind_free_text":"symbolic interpreter over go/ssa (x/tools v0.29.0) written for this task; SMT-LIB2 to persistent z3 4.8.12 (incremental + bit-blasting tactic) with one-shot fallback z3 5.1.0 / cvc5 1.0; native replay of every counterexample"}],
   "checks":checks,
   "not_applicable":not_app,
   "notes":"All checks are bounded; bounds, stubs and what lies outside are in each evidence file and in DESIGN.md. fix: commits in /repo are listed in known_findings.json as 'fixed'."}
json.dump(m,open('/verif/MANIFEST.json','w'),indent=1)
print(len(checks),"claimed",len(not_app),"not applicable")
